"""C19 — register allocation never gives one register to two live values.

Bounded-exhaustive (no sampling).  Programs are generated as small tuples, built into real
`riscv_func.func` / `x86_func.func` IR, allocated by the real allocator

* `RegisterAllocatorLivenessBlockNaive(RiscvRegisterStack.get(<2..4 registers>)).allocate_func` and the pass
  `riscv-allocate-registers` (default / allow_infinite / force_infinite / add_regalloc_stats),
* `X86RegisterAllocator(X86RegisterStack.get(<2..4 registers>)).allocate_func` and `x86-allocate-registers`
  (programs whose two-address operand is not at its last use are first run through `x86-regalloc-legalize`, the
  documented way of establishing the allocator's precondition),

and the allocated IR is judged by an oracle written here that shares nothing with xdsl/backend/liveness.py or
the allocator:

* the function is *unrolled* (a `riscv_scf.for` for K = 0, 1, 2 iterations, following the register level meaning
  of the loop: `mv iv, lb`; compare with ub; body; `add iv, iv, step`; compare with ub) into a straight trace of
  reads and writes of *dynamic value instances*; every instance carries the symbolic term of plain SSA evaluation
  (a loop with compile-time constant bounds, or lb = ub, is only run for its real trip count);
* (3) symbolic register machine: a register file maps a register name to the term last written into it; every
  operand read must find the SSA term of the value read (otherwise a live value was clobbered); `zero` reads as
  the constant 0 and ignores writes; two-address x86 instructions write the register of their tied *operand*;
* (1) interference: two different instances (different terms) whose live intervals (definition .. last read)
  overlap must not have the same register; exempt are pairs that were both pre-allocated in the input;
  everything the allocator placed in `zero` must be the constant 0;
* (2) pre-allocated types are unchanged, newly allocated registers come from the pool handed to the allocator
  (or are `zero`, or infinite registers when these were allowed); no value that is read or written stays
  unallocated when allocation succeeds.

A raised DiagnosticException (OutOfRegisters, "Cannot allocate registers to the same register") is the outcome
"reported-failure".  Inputs whose own pre-allocated registers already conflict (detected by running the same
machine on the input, looking at pre-allocated registers only) are skipped and counted.

Program space (see `configs`): op sequences of length <= 4 (quick) / <= 5 (thorough) over {li 0, li 5, li into a
pre-allocated register, get_register (unallocated / pre-allocated), mv, addi, add (operands x <= y), mul (x > y),
fcvt.s.w / fmv.s / fadd.s, riscv_scf.for with one loop-carried value and a body of 1-2 ops}, every operand wiring
over earlier values and 0-2 function arguments (unallocated or a0/a1), every return-operand subset up to the
configured size; x86: {di.mov (unallocated / rax), get_register, ds.mov (unallocated / rax), r.inc, ri.add,
rs.add (two-address), ss.cmp} with 0-2 arguments (unallocated or rdi/rsi).  Pools: the first 2, 3, 4 registers of
(t0, a0, t1, a1) / (rax, rdi, rcx, rsi), plus the passes with their default pools and the infinite-register options.

Two further families exercise loop nests (riscv only; x86_scf.for and frep are not modelled):
* `rv-nest`: depth-2 nests `for a..b { npre temporaries; for lb..ub step s iter_args(init) {..}; npost temporaries }`
  with npre, npost in 0..2 and every choice of the inner loop's lb / ub / step / init among the function arguments
  (two of them are the outer bounds, the others are used by nothing but the inner loop op), the outer induction
  variable and the temporaries defined before the inner loop; bounds are symbolic so that both loops are executed
  for 0, 1 and 2 iterations; pools of 5..10 registers and the pass;
* `rv-prenest`: values pre-allocated to a0 / a1 (function arguments, or top-level get_register results) that are read
  inside a loop body of depth 1 or 2, with / without an additional top-level use, with / without a riscv.comment
  (an op without declared memory effects) in the same or in the enclosing body, with 0..5 (7) values live across
  the loop and pools of 3..10 registers.

* `rv-forpre`: the init value of a loop-carried value is defined first, then 0..2 binary ops on function arguments /
  earlier temporaries (they need fresh operand registers above the loop), then the loop; pools of 4..8 and the pass;
* `rv-getreg-in-body`: a get_register with an allocated type (t0, a0, t1, a1, ..) INSIDE a loop body of depth 1 or 2,
  consumed by an inner loop op (ub / lb / step) and / or a plain op, with 0..5 (7) values live across the nest.

Signatures name the cause class so that different defects stay apart: `...|clobbered-live-value|<class>` and
`...|two-live-values-share-register[|<class>]` where <class> is `register-of-unused-get_register` (the shared
register is pre-allocated in the input, but only to unused get_register results), `preallocated-register-reused`,
`preallocated-register-used-only-in-loop-body`, `preallocated-register-defined-in-loop-body`, `loop|...` (programs with a riscv_scf.for: which value was read /
which pair collided), `nest|...` (the value is an operand of an inner loop op and defined outside the whole nest),
or the kind of the op that overwrote the register.
"""
from __future__ import annotations

import itertools
import json

from mc.stats import Stats
from mc.pool import pmap

# ------------------------------------------------------------------------------------------------
# target descriptions
# ------------------------------------------------------------------------------------------------
RV_POOL = ("t0", "a0", "t1", "a1")          # restricted pools are prefixes of this list
RV_FPOOL = ("ft0", "fa0", "ft1")
NEST_POOL = ("t0", "a0", "t1", "a1", "t2", "a2", "t3", "a3", "t4", "a4")   # pools of the loop-nest families
RV_PRE_LI = "t0"                            # register of the pre-allocated li
RV_PRE_GET = "a0"                           # register of the pre-allocated get_register
RV_RESERVED = {"sp", "ra", "gp", "tp", "s0", "fp", "s1", "s2", "s3", "s4", "s5", "s6", "s7", "s8", "s9", "s10", "s11"}
RV_DEFAULT = {f"t{i}" for i in range(7)} | {f"a{i}" for i in range(8)} | {f"ft{i}" for i in range(12)} | {
    f"fa{i}" for i in range(8)}

X86_POOL = ("rax", "rdi", "rcx", "rsi")
X86_PRE_IMM = "rax"
X86_PRE_GET = "rdi"
X86_RESERVED = {"rsp", "rbp", "r12"}
X86_DEFAULT = {"rax", "rcx", "rdx", "rbx", "rsi", "rdi", "r8", "r9", "r10", "r11", "r13", "r14", "r15"}

# op name -> (semantic kind, index of the operand the result is tied to)
SEM = {
    "rv32.li": ("const", None), "rv64.li": ("const", None),
    "riscv.mv": ("copy", None), "riscv.fmv.s": ("copy", None),
    "riscv.add": ("pure", None), "riscv.mul": ("pure", None), "riscv.addi": ("pure", None),
    "riscv.fadd.s": ("pure", None), "riscv.fcvt.s.w": ("pure", None),
    "rv32.get_register": ("getreg", None), "riscv.get_float_register": ("getreg", None),
    "riscv_func.return": ("sink", None),
    "riscv_scf.for": ("for", None), "riscv_scf.yield": ("yield", None), "riscv.comment": ("nop", None),
    "x86.di.mov": ("const", None), "x86.ds.mov": ("copy", None),
    "x86.rs.add": ("pure", 0), "x86.rs.imul": ("pure", 0), "x86.r.inc": ("pure", 0), "x86.ri.add": ("pure", 0),
    "x86.ss.cmp": ("pure", None), "x86.get_register": ("getreg", None),
    "x86_func.ret": ("sink", None),
}


# ------------------------------------------------------------------------------------------------
# snapshot of real IR: positional value ids, structure, register of every value
# ------------------------------------------------------------------------------------------------
def _attr_key(op):
    from xdsl.dialects.builtin import IntegerAttr

    if op.name == "riscv_scf.for":
        a = op.properties.get("step_attr")
        return "dyn" if a is None else f"static:{a.value.data}"
    a = op.attributes.get("immediate")
    if a is None:
        a = op.properties.get("immediate")
    if a is None:
        return None
    if isinstance(a, IntegerAttr):
        return a.value.data
    return str(a)


def snapshot(block):
    """-> ((block args, ops), regs) with ops = (name, key, operands, results, body|None); regs[vid] = register
    name, None when unallocated, "?" when the value is not of a register type."""
    from xdsl.backend.register_type import RegisterType

    ids: dict = {}
    regs: list = []
    dangling: list = []

    def new(v):
        t = v.type
        if isinstance(t, RegisterType):
            r = t.register_name.data if t.is_allocated else None
        else:
            r = "?"
        ids[v] = len(regs)
        regs.append(r)
        return ids[v]

    def walk(blk):
        bargs = tuple(new(a) for a in blk.args)
        ops = []
        for op in blk.ops:
            operands = []
            for o in op.operands:
                if o not in ids:            # operand that is defined nowhere in the function: broken IR
                    dangling.append(op.name)
                    new(o)
                operands.append(ids[o])
            operands = tuple(operands)
            body = None
            if op.regions:
                body = walk(op.regions[0].block)
            results = tuple(new(r) for r in op.results)
            ops.append((op.name, _attr_key(op), operands, results, body))
        return (bargs, tuple(ops))

    return walk(block), regs, dangling


# ------------------------------------------------------------------------------------------------
# the oracle: unrolling + symbolic register machine + interval interference
# ------------------------------------------------------------------------------------------------
class Run:
    """One unrolled execution.  insts[i] = [vid, term, reg, root, def_event, last_read_event, role, vid of last reader]."""

    def __init__(self, struct, regs, pre, K, zero, strict, getreg_in):
        self.regs, self.pre, self.K, self.zero, self.strict = regs, pre, K, zero, strict
        self.getreg_in = getreg_in
        self.insts: list = []
        self.R: dict = {}
        self.ev = 0
        self.cur: dict = {}
        self.mism: list = []
        self.unalloc: list = []
        self.ties: list = []
        self.unknown: list = []
        self.getreg: dict = {}
        self.sinks: list = []
        self.reads = 0
        self.fixed_trips = False       # every loop executed so far had a compile-time trip count
        self.saw_loop = False
        self.exit_ev = None
        bargs, ops = struct
        self.ev = -1
        for n, a in enumerate(bargs):
            i = self.mk(a, ("arg", n), "arg")
            r = regs[a]
            if r not in (None, "?") and r != zero:
                self.R[r] = (("arg", n), "entry", None)
        self.ev = 0
        self.block(ops)

    def mk(self, vid, term, role, root=None):
        i = len(self.insts)
        self.insts.append([vid, term, self.regs[vid], i if root is None else root, self.ev, -1, role, vid])
        self.cur[vid] = i
        return i

    def alias(self, vid, src_inst, role):
        root = self.insts[src_inst][3]
        return self.mk(vid, self.insts[root][1], role, root)

    def read(self, vid, opname, slot):
        i = self.cur[vid]
        _, term, reg, root = self.insts[i][:4]
        self.insts[root][5] = self.ev
        self.insts[root][7] = vid
        self.reads += 1
        if reg is None:
            if self.strict:
                self.unalloc.append((opname, slot, vid))
            return term
        if reg == "?":
            return term
        if reg == self.zero:
            got, writer, wvid = ("c", 0), "hardwired-zero", None
        else:
            got, writer, wvid = self.R.get(reg, (("init", reg), "entry", None))
        if got != term:
            self.mism.append({"event": self.ev, "reader": opname, "operand": slot, "value": vid, "register": reg,
                              "expected": term, "found": got, "written_by": writer, "writer_value": wvid})
        return term

    def write(self, inst, wreg, opname):
        if wreg is None:
            if self.strict:
                self.unalloc.append((opname, "result", self.insts[inst][0]))
            return
        if wreg == "?" or wreg == self.zero:
            return
        self.R[wreg] = (self.insts[inst][1], opname, self.insts[inst][0])

    def block(self, ops):
        for op in ops:
            self.op(op)

    def op(self, op):
        name, key, operands, results, body = op
        kind, tied = SEM.get(name, (None, None))
        if kind is None:
            self.unknown.append(name)
            self.ev += 1
            return
        if kind == "for":
            self.loop(op)
            return
        terms = [self.read(v, name, n) for n, v in enumerate(operands)]
        if kind == "nop":
            self.ev += 1
            return
        if kind in ("sink", "yield"):
            if kind == "sink":
                self.sinks.extend(terms)
            self.ev += 1
            return
        (res,) = results
        if kind == "const":
            t = ("c", key)
        elif kind == "copy":
            t = terms[0]
        elif kind == "pure":
            t = (name, key, *terms)
        else:  # getreg
            reg = self.regs[res]
            if self.pre[res] if res < len(self.pre) else False:
                if self.getreg_in is not None and res in self.getreg_in:
                    t = self.getreg_in[res]
                elif reg == self.zero:
                    t = ("c", 0)
                else:
                    t = self.R.get(reg, (("init", reg), "entry", None))[0]
                self.getreg[res] = t
                self.mk(res, t, name)
                self.ev += 1
                return
            t = ("sym", res)
        i = self.mk(res, t, name)
        if name == "x86.ss.cmp":
            self.sinks.extend(terms)
        if tied is not None:
            wreg = self.regs[operands[tied]]
            if self.strict and wreg != self.regs[res]:
                self.ties.append((name, wreg, self.regs[res]))
        else:
            wreg = self.regs[res]
        self.write(i, wreg, name)
        self.ev += 1

    def loop(self, op):
        name, key, operands, results, body = op
        bargs, bops = body
        dyn = key == "dyn"
        lb, ub = operands[0], operands[1]
        step = operands[2] if dyn else None
        inits = operands[3:] if dyn else operands[2:]
        iv, carried = bargs[0], bargs[1:]
        yops = bops[-1][2]
        # entry: mv iv, lb ; bge iv, ub
        tlb = self.read(lb, name, "lb")
        tub = self.read(ub, name, "ub")
        tstep = self.read(step, name, "step") if dyn else ("c", int(key.split(":")[1]))
        # iterations: K, unless the trip count is a compile-time fact (then only that path exists)
        trips = _trip_count(tlb, tub, tstep)
        iters = self.K if trips is None else min(trips, 2)
        if not self.saw_loop:
            self.saw_loop, self.fixed_trips = True, trips is not None
        elif trips is None:
            self.fixed_trips = False
        for n, v in enumerate(inits):
            self.read(v, name, f"iter_arg{n}")
        if self.strict:
            for c, i0, y, r in zip(carried, inits, yops, results):
                rs = {self.regs[c], self.regs[i0], self.regs[y], self.regs[r]}
                if len(rs) != 1:
                    self.ties.append((name, self.regs[i0], self.regs[c], self.regs[y], self.regs[r]))
        i = self.mk(iv, tlb, "for.iv")
        self.write(i, self.regs[iv], "for.init-iv")
        for c, i0 in zip(carried, inits):
            self.alias(c, self.cur[i0], "for.carried")
        self.ev += 1
        for _ in range(iters):
            self.block(bops)            # ends with the yield (reads its operands)
            ysrc = [self.cur[y] for y in yops]
            tiv = self.read(iv, name, "iv")
            if dyn:
                tst = self.read(step, name, "step")
                t = ("riscv.add", None, tiv, tst)
            else:
                t = ("riscv.addi", tstep[1], tiv)
            i = self.mk(iv, t, "for.iv")
            self.write(i, self.regs[iv], "for.step-iv")
            self.ev += 1
            self.read(iv, name, "iv")
            self.read(ub, name, "ub")
            self.ev += 1
            for c, s in zip(carried, ysrc):
                self.alias(c, s, "for.carried")
        if trips is not None and trips > iters and self.exit_ev is None:
            self.exit_ev = self.ev      # the loop really goes on: what follows is only a prefix-consistent guess
        for r, c in zip(results, carried):
            self.alias(r, self.cur[c], "for.result")

    # -- (1) interference on the trace -----------------------------------------------------
    def conflicts(self):
        by_reg: dict = {}
        out = []
        for idx, (vid, term, reg, root, d, l, role, _via) in enumerate(self.insts):
            if root != idx or reg in (None, "?"):
                continue
            if reg == self.zero:
                if not self.pre[vid] and term != ("c", 0):
                    out.append(("nonzero-in-zero", idx, idx))
                continue
            if l <= d:
                continue           # never read afterwards: not live
            by_reg.setdefault(reg, []).append(idx)
        for reg in sorted(by_reg):
            lst = by_reg[reg]
            for x in range(len(lst)):
                a = self.insts[lst[x]]
                for y in range(x + 1, len(lst)):
                    b = self.insts[lst[y]]
                    if a[1] == b[1] or (self.pre[a[0]] and self.pre[b[0]]):
                        continue
                    if self.exit_ev is not None and b[4] >= self.exit_ev:
                        continue
                    if b[4] < a[5]:       # b is defined while a still has a read to come
                        out.append(("share", lst[x], lst[y]))
        return out


def _const(t):
    """Integer value of a term made of constants only, else None."""
    if t[0] == "c":
        return t[1] if isinstance(t[1], int) else None
    if t[0] in ("riscv.add", "riscv.mul"):
        a, b = _const(t[2]), _const(t[3])
        if a is None or b is None:
            return None
        return a + b if t[0] == "riscv.add" else a * b
    if t[0] == "riscv.addi":
        a = _const(t[2])
        return None if a is None or not isinstance(t[1], int) else a + t[1]
    return None


def _trip_count(tlb, tub, tstep):
    """Number of iterations of `iv = lb; if iv < ub: do body; iv += step while iv < ub` when it is a compile-time
    fact (capped at 3), else None."""
    if tlb == tub:
        return 0
    lb, ub, step = _const(tlb), _const(tub), _const(tstep)
    if lb is None or ub is None:
        return None
    if lb >= ub:
        return 0
    if step is None:
        return None
    n, iv = 0, lb
    while n < 3:
        n += 1
        iv += step
        if iv >= ub:
            break
    return n


def _term_str(t, depth=0):
    if not isinstance(t, tuple):
        return str(t)
    if depth > 4:
        return "..."
    return "(" + " ".join(_term_str(x, depth + 1) for x in t if x is not None) + ")"


def _has_for(struct):
    return any(o[0] == "riscv_scf.for" for o in struct[1])


def _struct_sig(struct):
    bargs, ops = struct
    return (bargs, tuple((n, k, o, r, None if b is None else _struct_sig(b)) for n, k, o, r, b in ops))


def _facts(struct):
    """uses[vid], defining op name of every value, loop role of every value that takes part in a riscv_scf.for,
    flags (duplicate tie / exotic yield), and for every value the smallest loop depth at which it is used."""
    uses: dict = {}
    defop: dict = {}
    role: dict = {}
    defdepth: dict = {}
    usedepth: dict = {}
    dup = [False]
    exotic = [False]

    def walk(blk, depth):
        bargs, ops = blk
        for x in bargs:
            defdepth[x] = depth
        for name, key, operands, results, body in ops:
            for o in operands:
                uses[o] = uses.get(o, 0) + 1
                usedepth[o] = min(usedepth.get(o, depth), depth)
            for r in results:
                defop[r] = name
                defdepth[r] = depth
                if depth:
                    role.setdefault(r, "for.body")
            if name == "riscv_scf.for":
                dyn = key == "dyn"
                inits = operands[3:] if dyn else operands[2:]
                for o in operands[: 3 if dyn else 2]:
                    if depth and defdepth.get(o) == 0 and role.get(o) != "for.init":
                        # operand of an inner loop op that is defined outside the whole nest
                        role[o] = "nest.inner-loop-bound-defined-outside-the-nest"
                    else:
                        role.setdefault(o, "for.bound")
                for o in inits:
                    role[o] = "for.init"
                role[body[0][0]] = "for.iv"
                for c in body[0][1:]:
                    role[c] = "for.carried"
                for r in results:
                    role[r] = "for.result"
                yops = body[1][-1][2]
                inbody_results = {r for o in body[1] for r in o[3]}
                for y, c, i0 in zip(yops, body[0][1:], inits):
                    if y == c or y == i0:
                        dup[0] = True
                    if y != c and y not in inbody_results:
                        exotic[0] = True        # yields a value from outside the body or the induction variable
            if body is not None:
                walk(body, depth + 1)

    for x in struct[0]:
        defop[x] = "arg"
    walk(struct, 0)
    return uses, defop, role, dup[0], exotic[0], usedepth, defdepth


def judge(target, strategy, s_before, regs_before, s_after, regs_after, allowed, infinite, reserved, zero):
    """Compare allocated IR with the input.  Returns list of (sig, what, detail) and number of comparisons."""
    out = []
    evals = 0
    same = _struct_sig(s_before) == _struct_sig(s_after) and len(regs_before) == len(regs_after)
    pre = [r is not None for r in regs_before]
    if not same:
        pre = [False] * len(regs_after)
    uses, defop, role, _, exotic, usedepth, defdepth = _facts(s_after)
    has_for = _has_for(s_after)
    Ks = (0, 1, 2) if has_for else (0,)
    pre_regs = {r for r in regs_before if r not in (None, "?")}
    # registers that the input pre-allocates only to unused results of get_register ops
    holders: dict = {}
    if same:
        for vid, r in enumerate(regs_before):
            if r not in (None, "?"):
                holders.setdefault(r, []).append(vid)
    # ... or to unused function arguments: values no operation with register effects ever touches
    dead_get = {r for r, hs in holders.items()
                if all(not uses.get(h) and (defop.get(h, "").endswith("get_register") or defop.get(h) == "arg")
                       for h in hs) and any(defop.get(h, "").endswith("get_register") for h in hs)}

    def cause(reg, loopclass):
        if reg in dead_get:
            return "register-of-unused-get_register"
        if reg in pre_regs:
            used = [h for h in holders.get(reg, ()) if uses.get(h)]
            if used and all(defdepth.get(h, 0) >= 1 for h in used):
                return "preallocated-register-defined-in-loop-body"
            if used and all(usedepth.get(h, 0) >= 1 for h in used):
                return "preallocated-register-used-only-in-loop-body"
            return "preallocated-register-reused"
        if has_for:
            if exotic:
                return "loop|yielded-value-not-defined-in-body"
            if "nest." in loopclass:
                return "nest|" + loopclass.replace("nest.", "")
            return "loop|" + loopclass
        return None

    # ---- (2) registers handed out
    if same:
        for vid, (rb, ra) in enumerate(zip(regs_before, regs_after)):
            evals += 1
            if rb is not None:
                if ra != rb:
                    out.append((f"C19|{target}|preallocated-changed",
                                f"a value pre-allocated to {rb} is in {ra} after allocation", {"value": vid}))
            elif ra is not None and ra not in allowed and ra != zero and ra not in pre_regs:
                # (a register that the input pre-allocates may reach further values through a tie)
                if infinite and (ra.startswith("j_") or ra.startswith("fj_") or ra.startswith("inf_")):
                    continue
                if ra in reserved:
                    out.append((f"C19|{target}|reserved-register-used|{ra}",
                                f"the allocator handed out the reserved register {ra}", {"value": vid}))
                else:
                    out.append((f"C19|{target}|register-outside-pool",
                                f"the allocator handed out {ra}, which is not in its register pool", {"value": vid}))
    for K in Ks:
        rb_run = None
        if same:
            rb_run = Run(s_before, regs_before, pre, K, zero, False, None)
        run = Run(s_after, regs_after, pre, K, zero, True, rb_run.getreg if rb_run else None)
        evals += run.reads + len(run.insts)
        for nm in run.unknown:
            out.append((f"C19|{target}|unexpected-op-after-allocation|{nm}", f"cannot execute {nm}", {}))
        if run.unalloc:
            o = run.unalloc[0]
            out.append((f"C19|{target}|unallocated-after-success",
                        f"allocation succeeded but {o[0]} uses an unallocated register ({o[1]})", {"K": K}))
            continue
        for tie in run.ties:
            if tie[0].startswith("x86"):
                sig = f"C19|x86|inout|tied-result-in-other-register|{tie[0]}"
            else:
                sig = f"C19|{target}|{strategy}|loop-carried-registers-differ"
            out.append((sig, f"{tie[0]}: registers that must be one register are {tie[1:]}", {"K": K}))
        # ---- (3)
        for m in run.mism:
            if run.exit_ev is not None and m["event"] >= run.exit_ev:
                continue
            wr = m["written_by"]
            inout = target == "x86" and (SEM.get(wr, (None, None))[1] is not None
                                         or SEM.get(m["reader"], (None, None))[1] is not None)
            mid = "inout" if inout else strategy
            d = dict(m)
            d["expected"], d["found"] = _term_str(m["expected"]), _term_str(m["found"])
            d["K"] = K
            rclass = "read-of-" + role.get(m["value"], "value-defined-outside")
            wv = m.get("writer_value")
            if role.get(m["value"]) == "for.init" and wv is not None and defdepth.get(wv, 0) == 0 \
                    and role.get(wv) is None:
                # the loop's init value was overwritten by a plain top-level op (not by the loop itself)
                rclass = "read-of-for.init-overwritten-outside-the-loop"
            c = cause(m["register"], rclass)
            out.append((f"C19|{target}|{mid}|clobbered-live-value|{c or wr}",
                        f"{m['reader']} reads {m['register']} expecting {d['expected']} but the register holds "
                        f"{d['found']} (written by {wr})", d))
            break
        # ---- (1)
        for kind, ia, ib in run.conflicts():
            a, b = run.insts[ia], run.insts[ib]
            if kind == "nonzero-in-zero":
                out.append((f"C19|{target}|{strategy}|non-constant-zero-value-in-zero-register",
                            f"value defined by {a[6]} = {_term_str(a[1])} was placed in the zero register", {"K": K}))
                continue
            inout = target == "x86" and any(SEM.get(r, (None, None))[1] is not None for r in (a[6], b[6]))
            mid = "inout" if inout else strategy
            ra, rb_ = role.get(a[0]), role.get(b[0])
            if role.get(a[7]) == "for.carried" and rb_ == "for.body":
                lc = "carried-value-read-after-next-value-defined"
            elif ra == "for.init" and defdepth.get(b[0], 0) >= 1:
                lc = "init-operand-live-across-loop"        # collides with a value of the loop itself
            else:
                lc = f"{ra or 'outside'}~{rb_ or 'outside'}"
            c = cause(a[2], lc)
            sig = f"C19|{target}|{mid}|two-live-values-share-register" + (f"|{c}" if c else "")
            out.append((sig, f"{_term_str(a[1])} (defined by {a[6]}) and {_term_str(b[1])} (defined by {b[6]}) are "
                             f"live at the same time and both in {a[2]}",
                        {"K": K, "register": a[2], "values": [a[0], b[0]]}))
            break
        if not same:
            ref = Run(s_before, regs_before, [r is not None for r in regs_before], K, zero, False, None)
            evals += 1
            if ref.sinks != run.sinks and not run.mism:
                out.append((f"C19|{target}|results-differ-after-restructuring",
                            "the allocator changed the operations and the values read at the end differ", {"K": K}))
        if run.fixed_trips:
            break           # the trip count is a compile-time fact: there is only this one execution
    return out, evals


def input_conflict(struct, regs, zero):
    """True when the input's own pre-allocated registers already clobber each other."""
    pre = [r is not None for r in regs]
    for K in ((0, 1, 2) if _has_for(struct) else (0,)):
        run = Run(struct, regs, pre, K, zero, False, None)
        if run.mism:
            return True
        if run.fixed_trips:
            break
    return False


# ------------------------------------------------------------------------------------------------
# independent static liveness on the tuple programs (only used to classify x86 inputs: is the tied operand of
# every two-address op at its last use?)
# ------------------------------------------------------------------------------------------------
X86_TIED = {"add": True, "imul": True, "inc": True, "addi": True}


def x86_inout_ok(ops):
    """Backward liveness over the straight-line tuple program."""
    live: set = set()
    for pos in range(len(ops) - 1, -1, -1):
        op = ops[pos]
        k = op[0]
        operands = _x86_operands(op)
        if k in X86_TIED:
            tied = operands[0]
            if tied in live:
                return False
        live.update(operands)
    return True


def _x86_operands(op):
    k = op[0]
    if k in ("imm", "getreg"):
        return ()
    if k in ("mov", "inc", "addi"):
        return (op[1],)
    return (op[1], op[2])


# ------------------------------------------------------------------------------------------------
# builders: tuple program -> real IR
# ------------------------------------------------------------------------------------------------
def build_riscv(prog):
    from xdsl.dialects import builtin, riscv, riscv_func, riscv_scf, rv32
    from xdsl.dialects.riscv import FloatRegisterType, IntRegisterType
    from xdsl.ir import Block, Region

    U = IntRegisterType.unallocated()
    FU = FloatRegisterType.unallocated()

    def ity(pre):
        return U if pre is None else IntRegisterType.from_name(pre)

    args, ops, ret = prog
    arg_types = [ity(None if a == "u" else a) for a in args]
    blk = Block(arg_types=arg_types)
    vals = list(blk.args)

    def emit(op, vals, out):
        k = op[0]
        if k == "li":
            o = rv32.LiOp(op[1], rd=ity(op[2]))
        elif k == "getreg":
            o = rv32.GetRegisterOp(ity(op[1]))
        elif k == "mv":
            o = riscv.MVOp(vals[op[1]], rd=U)
        elif k == "addi":
            o = riscv.AddiOp(vals[op[1]], 1, rd=U)
        elif k == "add":
            o = riscv.AddOp(vals[op[1]], vals[op[2]], rd=U)
        elif k == "mul":
            o = riscv.MulOp(vals[op[1]], vals[op[2]], rd=U)
        elif k == "fcvt":
            o = riscv.FCvtSWOp(vals[op[1]], rd=FU)
        elif k == "fmv":
            o = riscv.FMVOp(vals[op[1]], rd=FU)
        elif k == "fadd":
            o = riscv.FAddSOp(vals[op[1]], vals[op[2]], rd=FU)
        elif k == "comment":
            o = riscv.CommentOp("unknown effects")
        elif k == "for":
            # value ids: iv, carried value (a placeholder when init is None), body values, result (or placeholder)
            _, lb, ub, step, init, body = op
            bops, yld = body
            carried = init is not None
            bblk = Block(arg_types=[U, U] if carried else [U])
            inner = list(vals) + [bblk.args[0], bblk.args[1] if carried else None]
            bout = []
            for b in bops:
                emit(b, inner, bout)
            bout.append(riscv_scf.YieldOp(inner[yld]) if carried else riscv_scf.YieldOp())
            bblk.add_ops(bout)
            stepv = builtin.IntegerAttr(1, riscv.si12) if step is None else vals[step]
            o = riscv_scf.ForOp(vals[lb], vals[ub], stepv, [vals[init]] if carried else [], Region(bblk))
        else:
            raise ValueError(k)
        out.append(o)
        if k == "for":
            vals.extend(inner[len(vals):])      # ids of iv, carried value and body results (never wired outside)
        vals.append(o.results[0] if o.results else None)

    out = []
    for op in ops:
        emit(op, vals, out)
    out.append(riscv_func.ReturnOp(*[vals[r] for r in ret]))
    blk.add_ops(out)
    fn = riscv_func.FuncOp("f", Region(blk), (arg_types, ()))
    return builtin.ModuleOp([fn]), fn


def build_x86(prog):
    from xdsl.dialects import builtin, x86, x86_func
    from xdsl.dialects.x86 import ops as xo
    from xdsl.dialects.x86.registers import Reg64Type
    from xdsl.ir import Block, Region

    U = Reg64Type.unallocated()

    def ty(pre):
        return U if pre is None else Reg64Type.from_name(pre)

    args, ops, _ret = prog
    arg_types = [ty(None if a == "u" else a) for a in args]
    blk = Block(arg_types=arg_types)
    vals = list(blk.args)
    out = []
    for op in ops:
        k = op[0]
        if k == "imm":
            o = xo.DI_MovOp(5, destination=ty(op[1]))
        elif k == "getreg":
            o = xo.GetRegisterOp(ty(op[1]))
        elif k == "mov":
            o = xo.DS_MovOp(vals[op[1]], destination=ty(op[2]))
        elif k == "add":
            o = xo.RS_AddOp(vals[op[1]], vals[op[2]], register_out=U)
        elif k == "imul":
            o = xo.RS_ImulOp(vals[op[1]], vals[op[2]], register_out=U)
        elif k == "inc":
            o = xo.R_IncOp(vals[op[1]], register_out=U)
        elif k == "addi":
            o = xo.RI_AddOp(vals[op[1]], 1, register_out=U)
        elif k == "cmp":
            o = xo.SS_CmpOp(vals[op[1]], vals[op[2]])
        else:
            raise ValueError(k)
        out.append(o)
        vals.append(o.results[0])
    out.append(x86_func.RetOp())
    blk.add_ops(out)
    fn = x86_func.FuncOp("f", Region(blk), (arg_types, ()))
    return builtin.ModuleOp([fn]), fn


# ------------------------------------------------------------------------------------------------
# running the real allocator
# ------------------------------------------------------------------------------------------------
def allocate(target, mode, module, fn):
    """-> (allowed register names, infinite allowed).  Raises whatever the allocator raises."""
    from xdsl.context import Context

    kind, arg = mode
    if target == "riscv":
        from xdsl.backend.riscv.register_allocation import RegisterAllocatorLivenessBlockNaive
        from xdsl.backend.riscv.register_stack import RiscvRegisterStack
        from xdsl.dialects.riscv import FloatRegisterType, IntRegisterType
        from xdsl.transforms.riscv_allocate_registers import RISCVAllocateRegistersPass

        if kind == "pass":
            opts = {"default": {}, "allow_infinite": {"allow_infinite": True},
                    "force_infinite": {"force_infinite": True}, "stats": {"add_regalloc_stats": True}}[arg]
            RISCVAllocateRegistersPass(**opts).apply(Context(), module)
            if arg == "force_infinite":
                return set(), True
            return RV_DEFAULT, arg == "allow_infinite"
        names = NEST_POOL[:arg] if kind == "npool" else RV_POOL[:arg]
        fnames = RV_FPOOL[: max(1, arg - 1)]
        regs = [IntRegisterType.from_name(n) for n in reversed(names)] + [
            FloatRegisterType.from_name(n) for n in reversed(fnames)]
        stack = RiscvRegisterStack.get(allocatable_registers=regs, allow_infinite=(kind == "pool+inf"))
        RegisterAllocatorLivenessBlockNaive(stack).allocate_func(fn)
        return set(names) | set(fnames), kind == "pool+inf"
    from xdsl.backend.x86.register_allocation import X86RegisterAllocator
    from xdsl.backend.x86.register_stack import X86RegisterStack
    from xdsl.dialects.x86.registers import Reg64Type
    from xdsl.transforms.x86_allocate_registers import X86AllocateRegisters

    if kind == "pass":
        X86AllocateRegisters().apply(Context(), module)
        return X86_DEFAULT, False
    names = X86_POOL[:arg]
    stack = X86RegisterStack.get(allocatable_registers=[Reg64Type.from_name(n) for n in reversed(names)],
                                 allow_infinite=(kind == "pool+inf"))
    X86RegisterAllocator(stack).allocate_func(fn)
    return set(names), kind == "pool+inf"


def _tup(x):
    if isinstance(x, list):
        return tuple(_tup(y) for y in x)
    return x


def check_case(st: Stats, target, prog, mode, legalize=False):
    """One execution of the real allocator on one program with one pool/mode.  Returns outcome label."""
    from xdsl.utils.exceptions import DiagnosticException

    strategy = "LivenessBlockNaive" if target == "riscv" else "naive"
    zero = "zero" if target == "riscv" else "\0none"
    reserved = RV_RESERVED if target == "riscv" else X86_RESERVED
    module, fn = (build_riscv if target == "riscv" else build_x86)(prog)
    wit = {"target": target, "prog": prog, "mode": list(mode), "legalize": legalize}
    if legalize:
        from xdsl.context import Context
        from xdsl.transforms.x86_regalloc_legalize import X86RegallocLegalizePass

        try:
            X86RegallocLegalizePass().apply(Context(), module)
        except Exception as e:  # noqa: BLE001 - not the allocator; counted, not judged
            st.outcomes[f"skipped:legalize-raised-{type(e).__name__}"] += 1
            return "input-conflict"
    s_before, regs_before, _ = snapshot(fn.body.block)
    if input_conflict(s_before, regs_before, zero):
        st.outcomes["skipped:input-preallocation-conflict"] += 1
        return "input-conflict"
    st.executions += 1
    try:
        allowed, infinite = allocate(target, mode, module, fn)
    except DiagnosticException as e:
        label = type(e).__name__
        st.outcomes[f"reported-failure:{label}"] += 1
        return "reported-failure"
    except Exception as e:  # noqa: BLE001
        st.outcomes[f"raises:{type(e).__name__}"] += 1
        st.violate(f"C19|{target}|raises|{type(e).__name__}",
                   f"allocation raised the undocumented {type(e).__name__}: {str(e)[:120]}", wit)
        return "raises"
    s_after, regs_after, dangling = snapshot(fn.body.block)
    if dangling:
        st.outcomes["VIOLATION allocated:ir-broken"] += 1
        kind = "riscv_scf.for-yields-its-block-argument-or-init" if _facts(s_before)[3] else dangling[0]
        _violate(st, f"C19|{target}|{strategy}|dangling-operand-after-allocation|{kind}",
                 f"allocation succeeded but an operand of {dangling[0]} refers to a value that is no longer "
                 f"defined in the function (stale block argument / result)", dict(wit, ir_after=str(fn)[:1500]))
        return "ir-broken"
    found, evals = judge(target, strategy, s_before, regs_before, s_after, regs_after, allowed, infinite,
                         reserved, zero)
    st.evaluations += evals
    for sig, what, detail in found:
        w = dict(wit)
        w["detail"] = detail
        w["registers_after"] = regs_after
        w["ir_after"] = str(fn)[:1500]
        _violate(st, sig, what, w)
    used = [r for r in regs_after if r not in (None, "?")]
    reuse = len(used) != len(set(used))
    label = "allocated:registers-reused" if reuse else "allocated:all-distinct"
    st.outcomes[("VIOLATION " if found else "") + label] += 1
    return label


def _wkey(w):
    s = json.dumps(w, sort_keys=True, default=str)
    return (len(s), s)


def _violate(st: Stats, sig, what, wit):
    v = st.violations.get(sig)
    if v is not None and _wkey(wit) < _wkey(v["witness"]):
        v["witness"], v["what"] = wit, what
    st.violate(sig, what, wit)


# ------------------------------------------------------------------------------------------------
# enumeration
# ------------------------------------------------------------------------------------------------
def rv_choices(info, cfg):
    """All ops that can be appended given the available values; info[i] = (class, unallocated type?)."""
    I = [i for i, (c, _) in enumerate(info) if c == "i"]
    F = [i for i, (c, _) in enumerate(info) if c == "f"]
    al = cfg["alphabet"]
    if "li0" in al:
        yield ("li", 0, None), ("i", True)
    if "li5" in al:
        yield ("li", 5, None), ("i", True)
    if "lipre" in al:
        yield ("li", 7, RV_PRE_LI), ("i", False)
    if "li0pre" in al:
        yield ("li", 0, RV_PRE_GET), ("i", False)
    if "get" in al:
        yield ("getreg", None), ("i", True)
    if "getpre" in al:
        yield ("getreg", RV_PRE_GET), ("i", False)
    for x in I:
        if "mv" in al:
            yield ("mv", x), ("i", True)
        if "addi" in al:
            yield ("addi", x), ("i", True)
    for x in I:
        for y in I:
            if x <= y and "add" in al:
                yield ("add", x, y), ("i", True)
            if x > y and "mul" in al:
                yield ("mul", x, y), ("i", True)
    if "float" in al:
        for x in I:
            yield ("fcvt", x), ("f", True)
        for x in F:
            yield ("fmv", x), ("f", True)
            for y in F:
                if x <= y:
                    yield ("fadd", x, y), ("f", True)


def rv_for_choices(info, cfg):
    """riscv_scf.for with one loop-carried value: every (lb, ub, step, init) wiring allowed by the configuration and
    every body of 1 (or 2) ops over {outer int values, induction variable, carried value, earlier body result}."""
    I = [i for i, (c, _) in enumerate(info) if c == "i"]
    IU = [i for i, (c, u) in enumerate(info) if c == "i" and u]
    n = len(info)
    iv, car = n, n + 1
    kinds = cfg["for_body_ops"]

    def opsover(avail):
        out = []
        for k in kinds:
            if k in ("mv", "addi"):
                out += [(k, x) for x in avail]
            else:
                out += [(k, x, y) for x in avail for y in avail if x <= y]
        return out

    inner_all = I + [iv, car]
    bodies = []
    one = opsover(inner_all)
    if cfg["for_li"]:
        one.append(("li", 5, None))
    for b in one:
        ys = [n + 2, car]
        if cfg["for_exotic_yield"]:
            ys += IU + [iv]
        for y in ys:
            bodies.append(((b,), y))
    if cfg["for_body2"]:
        # "dependent": the second op reads the first one's result; "carried-only": additionally the first op reads
        # nothing but the carried value and the second nothing but the carried value and the first result
        firsts = opsover([car]) if cfg["for_body2"] == "carried-only" else one
        for b1 in firsts:
            avail = [car, n + 2] if cfg["for_body2"] == "carried-only" else inner_all + [n + 2]
            for b2 in opsover(avail):
                if (n + 2) not in b2[1:]:
                    continue
                for y in (n + 2, n + 3, car):
                    bodies.append(((b1, b2), y))
    steps = [None] + I if cfg["for_steps"] == "all" else [None] + I[-1:]
    bounds = [(lb, ub, step) for lb in I for ub in I for step in steps]
    if cfg["for_bounds"] == "reduced":      # lb and ub among the two most recent int values
        keep = set(I[-2:])
        bounds = [b for b in bounds if b[0] in keep and b[1] in keep]
    for lb, ub, step in bounds:
        for init in IU:
            for body in bodies:
                yield ("for", lb, ub, step, init, body), ("i", True), 2 + len(body[0])


def nest_programs(cfg):
    """Depth-2 loop nests.  Function arguments a, b (outer bounds) and c (, d) which nothing but the inner loop op
    may use; outer body = `npre` temporaries (addi chain from the outer induction variable), the inner loop,
    `npost` temporaries; the inner loop's lb / ub (distinct), step (static or a value) and iter_arg init (none or a
    value) range over the arguments, the outer induction variable and the temporaries defined before it."""
    nargs = cfg["nest_args"]
    args = ("u",) * nargs
    a, b = 0, 1
    for npre in cfg["nest_pre"]:
        iv_o = nargs
        cur = nargs + 2                      # iv, (placeholder for the carried value)
        pre, pre_ids = [], []
        for j in range(npre):
            pre.append(("addi", iv_o if j == 0 else pre_ids[-1]))
            pre_ids.append(cur)
            cur += 1
        S = list(range(nargs)) + [iv_o] + pre_ids
        steps = [None] + [x for x in S if x >= 2 and (x < nargs or x == iv_o)]
        inits = [None] + [x for x in S if x == 2 or x == iv_o or (pre_ids and x == pre_ids[-1])]
        iv_i, car_i, bres = cur, cur + 1, cur + 2
        after = cur + 4                      # ids after the inner loop (its result or placeholder is cur + 3)
        posts = [()]
        for first in (("li", 5, None), ("addi", iv_o)):
            if 1 in cfg["nest_post"]:
                posts.append((first,))
            if 2 in cfg["nest_post"]:
                posts.append((first, ("addi", after)))
        if 0 not in cfg["nest_post"]:
            posts = posts[1:]
        for lb in S:
            for ub in S:
                if lb == ub:
                    continue
                for step in steps:
                    for init in inits:
                        if init is None:
                            ibody = ((("addi", iv_i),), None)
                        else:
                            ibody = ((("addi", car_i),), bres)
                        inner = ("for", lb, ub, step, init, ibody)
                        for post in posts:
                            outer = ("for", a, b, None, None, (tuple(pre) + (inner,) + post, None))
                            yield (args, (outer,), ())


def prenest_programs(cfg):
    """Pre-allocated values (function arguments in ABI registers, or results of top-level get_register ops) that are
    read inside a loop body (depth 1 or 2), with or without a top-level use, with or without an op of unknown memory
    effects (riscv.comment) in a body, and k values that are live across the loop (unallocated get_register results,
    all returned)."""
    for pre in cfg["pre_args"]:
        npre = len(pre)
        for source in ("arg", "get_register"):
            args = (pre if source == "arg" else ()) + ("u", "u")
            lo, hi = len(args) - 2, len(args) - 1
            head = () if source == "arg" else tuple(("getreg", r) for r in pre)
            pv = list(range(npre)) if source == "arg" else list(range(2, 2 + npre))     # ids of the pre-allocated
            base = len(args) + len(head)
            for tops in itertools.product((False, True), repeat=npre):       # also a top-level use?
                for depth in (1, 2):
                    for comment in (("none", "with-use") if depth == 1 else ("none", "with-use", "outer-body")):
                        for k in cfg["pressure"]:
                            ops = list(head) + [("getreg", None)] * k
                            live = list(range(base, base + k))
                            ops += [("mv", v) for v, t in zip(pv, tops) if t]
                            uses = tuple(("addi", v) for v in pv)
                            ibody = uses + ((("comment",),) if comment == "with-use" else ())
                            loop = ("for", lo, hi, None, None, (ibody, None))
                            if depth == 2:
                                obody = ((("comment",),) if comment == "outer-body" else ()) + (loop,)
                                loop = ("for", lo, hi, None, None, (obody, None))
                            yield (args, tuple(ops) + (loop,), tuple(live))


def forpre_programs(cfg):
    """A loop with one loop-carried value whose init is defined first, then 0..2 binary ops whose operands are
    function arguments / earlier temporaries (so that they need fresh registers above the loop), then the loop
    (lb, ub: distinct values among the three most recent non-init values; body: addi of the carried value)."""
    nargs = cfg["forpre_args"]
    args = ("u",) * nargs
    for init_op in (("li", 5, None), ("addi", nargs - 1)):
        init = nargs
        for nmid in cfg["forpre_mid"]:
            def mids(avail, todo):
                if not todo:
                    yield ()
                    return
                for x in avail:
                    for y in avail:
                        if x <= y:
                            nxt = max(max(avail), init) + 1
                            for rest in mids(avail + [nxt], todo - 1):
                                yield (("add", x, y),) + rest
            for mid in mids(list(range(nargs)) + [init], nmid):
                nv = nargs + 1 + nmid                  # values defined before the loop
                others = [v for v in range(nv) if v != init][-3:]
                car, bres, res = nv + 1, nv + 2, nv + 3
                for lb in others:
                    for ub in others:
                        if lb == ub:
                            continue
                        loop = ("for", lb, ub, None, init, ((("addi", car),), bres))
                        for ret in ((), (res,)):
                            yield (args, (init_op,) + mid + (loop,), ret)


def getreg_in_body_programs(cfg):
    """A get_register with an allocated type INSIDE a loop body (depth 1 or 2), consumed by an inner loop op (as ub,
    lb or step: no register effects) and / or by a plain op, with k values live across the nest."""
    args = ("u", "u")
    lo, hi = 0, 1
    for reg in cfg["body_regs"]:
        for depth in (1, 2):
            for consumer in ("inner-ub", "inner-lb", "inner-step", "plain", "inner-ub+plain"):
                for k in cfg["pressure"]:
                    ops = [("getreg", None)] * k
                    live = list(range(2, 2 + k))
                    cur = 2 + k
                    # ids: every loop takes iv, placeholder, body values..., placeholder
                    ivs = []
                    for _ in range(depth):
                        ivs.append(cur)
                        cur += 2
                    n = cur                                   # the pre-allocated get_register
                    body = [("getreg", reg)]
                    cur += 1
                    if "plain" in consumer:
                        body.append(("addi", n))
                        cur += 1
                    if "inner" in consumer:
                        iv_i = cur
                        ibody = ((("addi", iv_i),), None)
                        lb, ub, step = {"inner-ub": (lo, n, None), "inner-ub+plain": (lo, n, None),
                                        "inner-lb": (n, hi, None), "inner-step": (lo, hi, n)}[consumer]
                        body.append(("for", lb, ub, step, None, ibody))
                    loop = ("for", lo, hi, None, None, (tuple(body), None))
                    if depth == 2:
                        loop = ("for", lo, hi, None, None, ((loop,), None))
                    yield (args, tuple(ops) + (loop,), tuple(live))


def rets(info, cfg):
    """Return-operand choices: every subset of size <= cfg['ret_max'] (increasing index order)."""
    n = len(info)
    out = [()]
    for k in range(1, cfg["ret_max"] + 1):
        out.extend(itertools.combinations(range(n), k))
    return out


def rv_tag(op):
    """Alphabet tag of a tuple op."""
    k = op[0]
    if k == "li":
        return {(0, None): "li0", (5, None): "li5", (7, RV_PRE_LI): "lipre", (0, RV_PRE_GET): "li0pre"}[op[1:]]
    if k == "getreg":
        return "get" if op[1] is None else "getpre"
    if k in ("fcvt", "fmv", "fadd"):
        return "float"
    return k


def rv_programs(cfg, args, first=None):
    """Yield (ops, info) for every op sequence of length min_nops..nops (first op fixed when given)."""
    info0 = [("i", a == "u") for a in args]

    def rec(ops, info, depth, forused):
        if ops and depth >= cfg["min_nops"]:
            yield ops, info
        if depth == cfg["nops"]:
            return
        if first is not None and depth == 0:
            cands = [first]
        else:
            cands = list(rv_choices(info, cfg))
        for op, res in cands:
            yield from rec(ops + (op,), info + [res], depth + 1, forused)
        if cfg["for"] and not forused and info and not (first is not None and depth == 0):
            if depth >= cfg["for_min_prefix"] and cfg["nops"] - depth - 1 <= cfg["for_max_suffix"]:
                for op, res, nvals in rv_for_choices(info, cfg):
                    # inner values (iv, carried, body results) occupy ids too but are not visible afterwards
                    yield from rec(ops + (op,), info + [("x", False)] * nvals + [res], depth + 1, True)

    yield from rec((), info0, 0, False)


def rv_in_space(cfg, args, ops, ret):
    """Is this (loop free) program enumerated by configuration cfg?"""
    if cfg["target"] != "riscv" or cfg.get("family") or args not in cfg["args"]:
        return False
    if not (cfg["min_nops"] <= len(ops) <= cfg["nops"]) or len(ret) > cfg["ret_max"]:
        return False
    return all(rv_tag(o) in cfg["alphabet"] for o in ops)


def rv_modes(cfg, ops):
    has_for = any(o[0] == "for" for o in ops)
    modes = cfg["modes"]
    if not has_for:
        if len(ops) <= cfg["pass_nops_all"]:
            modes = modes + cfg["pass_modes"]
        elif len(ops) <= cfg["pass_nops"]:
            modes = modes + cfg["pass_modes"][:1]
    return modes


def x86_choices(info, cfg):
    """info[i] is True for a 64-bit register value (False: the rflags result of a cmp, never an operand)."""
    V = [i for i, g in enumerate(info) if g]
    yield ("imm", None)
    yield ("imm", X86_PRE_IMM)
    yield ("getreg", None)
    if cfg["x86_getpre"]:
        yield ("getreg", X86_PRE_GET)
    for x in V:
        yield ("mov", x, None)
        yield ("mov", x, X86_PRE_IMM)
        yield ("inc", x)
        if cfg["x86_addi"]:
            yield ("addi", x)
    for x in V:
        for y in V:
            yield ("add", x, y)
            if x <= y:
                yield ("cmp", x, y)


def x86_programs(cfg, args, first=None):
    nmax = cfg["nops_by_args"].get(args, cfg["nops"])

    def rec(ops, info, depth):
        if ops:
            yield ops
        if depth == nmax:
            return
        cands = [first] if (first is not None and depth == 0) else list(x86_choices(info, cfg))
        for op in cands:
            yield from rec(ops + (op,), info + [op[0] != "cmp"], depth + 1)

    yield from rec((), [True] * len(args), 0)


# ------------------------------------------------------------------------------------------------
# shards
# ------------------------------------------------------------------------------------------------
def _shard(task) -> Stats:
    st = Stats()
    quick, ci, args, first, part, parts, seed = task
    cfgs = configs(quick)
    name, cfg = cfgs[ci]
    n = 0
    idx = -1
    if cfg.get("family"):
        gen = {"nest": nest_programs, "prenest": prenest_programs, "forpre": forpre_programs,
               "getreg-in-body": getreg_in_body_programs}[cfg["family"]](cfg)
        for prog in gen:
            idx += 1
            if idx % parts != part:
                continue
            st.transitions += 1
            st.states += 1
            nontrivial = False
            for mode in cfg["modes"]:
                if check_case(st, "riscv", prog, mode) == "allocated:registers-reused":
                    nontrivial = True
            if nontrivial:
                st.nontrivial += 1
            if (idx + seed) % 5003 == 0:
                st.sample({"target": "riscv", "prog": prog})
    elif cfg["target"] == "riscv":
        for ops, info in rv_programs(cfg, args, first):
            idx += 1
            if idx % parts != part:      # the subtree of one first op is dealt round-robin to `parts` tasks
                continue
            st.transitions += 1
            has_for = any(o[0] == "for" for o in ops)
            visible = [i for i, (c, _) in enumerate(info) if c != "x"]
            vinfo = [info[i] for i in visible]
            for rsel in rets(vinfo, cfg):
                ret = tuple(visible[r] for r in rsel)
                prog = (args, ops, ret)
                modes = rv_modes(cfg, ops)
                if not has_for:
                    done = set()
                    seen = False
                    for _, earlier in cfgs[:ci]:
                        if rv_in_space(earlier, args, ops, ret):
                            seen = True
                            done.update(rv_modes(earlier, ops))
                    if seen:        # already a state of an earlier configuration: only run what that one did not
                        modes = tuple(m for m in modes if m not in done)
                        st.bump("programs shared with an earlier configuration (counted once)")
                    else:
                        st.states += 1
                else:
                    st.states += 1
                n += 1
                nontrivial = False
                for mode in modes:
                    lab = check_case(st, "riscv", prog, mode)
                    if lab == "allocated:registers-reused":
                        nontrivial = True
                    if lab == "input-conflict":
                        break
                if nontrivial:
                    st.nontrivial += 1
                if (n + seed) % 30011 == 0:
                    st.sample({"target": "riscv", "prog": prog})
    else:
        for ops in x86_programs(cfg, args, first):
            idx += 1
            if idx % parts != part:
                continue
            st.transitions += 1
            prog = (args, ops, ())
            st.states += 1
            n += 1
            ok = x86_inout_ok(ops)
            if not ok:
                st.bump("x86 programs legalized first (tied operand not at its last use)")
            nontrivial = False
            for mode in cfg["modes"]:
                lab = check_case(st, "x86", prog, mode, legalize=not ok)
                if lab == "allocated:registers-reused":
                    nontrivial = True
                if lab == "input-conflict":
                    break
            if nontrivial:
                st.nontrivial += 1
            if (n + seed) % 30011 == 0:
                st.sample({"target": "x86", "prog": prog})
    return st


# ------------------------------------------------------------------------------------------------
# self test of the oracle (hand-made allocations, no xDSL allocator involved)
# ------------------------------------------------------------------------------------------------
def _selftest():
    # %0 = li 5 ; %1 = li 6 ; %2 = add %0, %1 ; return %2, %0
    ops = (("rv32.li", 5, (), (0,), None), ("rv32.li", 6, (), (1,), None),
           ("riscv.add", None, (0, 1), (2,), None), ("riscv_func.return", None, (2, 0), (), None))
    s = ((), ops)
    none = [None, None, None]
    good, _ = judge("riscv", "S", s, none, s, ["t0", "t1", "t1"], {"t0", "t1"}, False, RV_RESERVED, "zero")
    assert not good, good
    bad, _ = judge("riscv", "S", s, none, s, ["t0", "t1", "t0"], {"t0", "t1"}, False, RV_RESERVED, "zero")
    sigs = {b[0] for b in bad}
    assert "C19|riscv|S|two-live-values-share-register" in sigs and any("clobbered" in x for x in sigs), sigs
    bad, _ = judge("riscv", "S", s, none, s, ["t0", "t0", "t1"], {"t0", "t1"}, False, RV_RESERVED, "zero")
    assert any("clobbered-live-value|rv32.li" in b[0] for b in bad), bad
    bad, _ = judge("riscv", "S", s, none, s, ["t0", "sp", "t1"], {"t0", "t1"}, False, RV_RESERVED, "zero")
    assert {b[0] for b in bad} == {"C19|riscv|reserved-register-used|sp"}, bad
    bad, _ = judge("riscv", "S", s, none, s, ["t0", "zero", "t1"], {"t0", "t1"}, False, RV_RESERVED, "zero")
    assert any("zero-register" in b[0] for b in bad), bad
    bad, _ = judge("riscv", "S", s, none, s, ["t0", None, "t1"], {"t0", "t1"}, False, RV_RESERVED, "zero")
    assert {b[0] for b in bad} == {"C19|riscv|unallocated-after-success"}, bad
    bad, _ = judge("riscv", "S", s, ["a0", None, None], s, ["t0", "t1", "t1"], {"t0", "t1"}, False, RV_RESERVED,
                   "zero")
    assert "C19|riscv|preallocated-changed" in {b[0] for b in bad}, bad
    # loop: %0 = li 5 ; %1 = get_register ; %5 = for %2 = %0 to %1 step %1 iter_args(%3 = %1) { %4 = addi %3 ;
    # yield %4 } ; return %5
    body = ((2, 3), (("riscv.addi", 1, (3,), (4,), None), ("riscv_scf.yield", None, (4,), (), None)))
    lops = (("rv32.li", 5, (), (0,), None), ("rv32.get_register", None, (), (1,), None),
            ("riscv_scf.for", "dyn", (0, 1, 1, 1), (5,), body), ("riscv_func.return", None, (5,), (), None))
    ls = ((), lops)
    n6 = [None] * 6
    pool = {"t0", "t1", "t2", "t3"}
    # ub/step (%1) share t0 with the carried value: clobbered in the first iteration
    bad, _ = judge("riscv", "S", ls, n6, ls, ["t1", "t0", "t2", "t0", "t0", "t0"], pool, False, RV_RESERVED, "zero")
    assert any("clobbered" in b[0] for b in bad) and any("share-register|loop|" in b[0] for b in bad), bad
    good, _ = judge("riscv", "S", ls, n6, ls, ["t1", "t0", "t2", "t3", "t3", "t3"], pool, False, RV_RESERVED, "zero")
    assert any("loop-carried-registers-differ" in b[0] for b in good), good   # init %1 in t0, carried in t3
    # the same loop with lb = ub (never runs): nothing to report although the registers collide in the body
    lops0 = (lops[0], lops[1], ("riscv_scf.for", "dyn", (1, 1, 1, 1), (5,), body), lops[3])
    ok, _ = judge("riscv", "S", ((), lops0), n6, ((), lops0), ["t1", "t0", "t2", "t0", "t0", "t0"], pool, False,
                  RV_RESERVED, "zero")
    assert not ok, ok
    assert _trip_count(("c", 5), ("riscv.add", None, ("c", 5), ("c", 5)), ("c", 5)) == 1
    assert _trip_count(("c", 5), ("c", 10), ("c", 1)) == 3 and _trip_count(("c", 5), ("arg", 0), ("c", 1)) is None
    # x86: %0 = imm ; %1 = imm ; %2 = rs.add %0, %1 ; cmp %2, %1
    xops = (("x86.di.mov", 5, (), (0,), None), ("x86.di.mov", 5, (), (1,), None),
            ("x86.rs.add", None, (0, 1), (2,), None), ("x86.ss.cmp", None, (2, 1), (3,), None))
    xs = ((), xops)
    good, _ = judge("x86", "naive", xs, [None, None, None, "rflags"], xs, ["rax", "rdi", "rax", "rflags"],
                    {"rax", "rdi"}, False, X86_RESERVED, "\0none")
    assert not good, good
    bad, _ = judge("x86", "naive", xs, [None, None, None, "rflags"], xs, ["rax", "rdi", "rdi", "rflags"],
                   {"rax", "rdi"}, False, X86_RESERVED, "\0none")
    assert any("C19|x86|inout|" in b[0] for b in bad), bad


# ------------------------------------------------------------------------------------------------
# entry points
# ------------------------------------------------------------------------------------------------
ARGS_RV = ((), ("u",), ("a0",), ("u", "u"), ("a0", "a1"))
ARGS_X86 = ((), ("u",), ("rdi",), ("u", "u"), ("rdi", "rsi"))
A4 = ("li5", "lipre", "mv", "add")
A5 = ("li0", "li5", "lipre", "mv", "add")
A7 = ("li0", "li5", "lipre", "getpre", "mv", "add", "mul")
A10 = ("li0", "li5", "lipre", "li0pre", "get", "getpre", "mv", "addi", "add", "mul")
POOLS = (("pool", 2), ("pool", 3), ("pool", 4))
PASS_MODES = (("pass", "default"), ("pass", "allow_infinite"), ("pass", "force_infinite"), ("pass", "stats"),
              ("pool+inf", 2))


def configs(quick: bool):
    """Ordered list of (name, configuration).  A loop free RISC-V program that lies in several configurations is a
    state of the first one only; later ones run only the modes the first did not run."""
    rv = {"target": "riscv", "modes": POOLS, "pass_modes": PASS_MODES, "pass_nops": 0, "pass_nops_all": 0,
          "min_nops": 1, "ret_max": 1, "for": False, "for_li": False, "for_exotic_yield": False, "for_body2": False,
          "for_bounds": "reduced", "for_steps": "all", "for_body_ops": ("mv", "addi", "add"), "for_min_prefix": 1,
          "for_max_suffix": 1, "parts": 1}
    x86 = {"target": "x86", "parts": 1, "modes": POOLS + (("pass", "default"),), "x86_getpre": True, "x86_addi": True,
           "nops_by_args": {}}
    one = ((), ("u",), ("a0",))
    two = (("u", "u"), ("a0", "a1"))
    if quick:
        return [
            ("rv-int-3", dict(rv, args=((), ("u",), ("a0",)), alphabet=A7, nops=3)),
            ("rv-int-3b", dict(rv, args=(("u", "u"), ("a0", "a1")), alphabet=A5, nops=3)),
            ("rv-int-4", dict(rv, args=((),), alphabet=A7, nops=4, min_nops=4)),
            ("rv-int-4u", dict(rv, args=(("u",),), alphabet=A4, nops=4, min_nops=4, parts=2)),
            ("rv-wide-2", dict(rv, args=ARGS_RV, alphabet=A10, nops=2, ret_max=2, pass_nops=2, pass_nops_all=2)),
            ("rv-float", dict(rv, args=one, alphabet=("li5", "float"), nops=4)),
            ("rv-for", dict(rv, args=((),), alphabet=("li5", "mv", "add"), nops=3, **{"for": True},
                            for_steps="static-or-last", for_body_ops=("addi", "add"), for_body2="carried-only", parts=8)),
            ("rv-for-u", dict(rv, args=(("u",),), alphabet=("li5", "mv", "add"), nops=2, **{"for": True},
                              for_steps="static-or-last", for_body_ops=("addi", "add"), for_body2="carried-only", parts=3)),
            ("rv-nest", dict(rv, family="nest", args=(), nops=9, **{"for": True}, nest_args=3, nest_pre=(0, 1, 2),
                             nest_post=(0, 1, 2), parts=16,
                             modes=(("npool", 5), ("npool", 6), ("npool", 8), ("pass", "default")))),
            ("rv-prenest", dict(rv, family="prenest", args=(), nops=9, **{"for": True},
                                pre_args=(("a0",), ("a1",), ("a0", "a1")), pressure=(0, 1, 2, 3, 4, 5), parts=4,
                                modes=(("npool", 4), ("npool", 6), ("npool", 8), ("npool", 10)))),
            ("rv-forpre", dict(rv, family="forpre", args=(), nops=9, **{"for": True}, forpre_args=2,
                               forpre_mid=(0, 1, 2), parts=8,
                               modes=(("npool", 4), ("npool", 5), ("npool", 6), ("pass", "default")))),
            ("rv-getreg-in-body", dict(rv, family="getreg-in-body", args=(), nops=9, **{"for": True},
                                       body_regs=("t0", "a0", "t1", "a1"), pressure=(0, 1, 2, 3, 4, 5), parts=4,
                                       modes=(("npool", 4), ("npool", 6), ("npool", 8), ("npool", 10)))),
            ("x86", dict(x86, args=((), ("u",), ("rdi",), ("rdi", "rsi")), nops=3, nops_by_args={(): 4},
                         x86_addi=False, modes=(("pool", 2), ("pool", 3), ("pass", "default")), parts=2)),
        ]
    return [
        ("rv-int-4", dict(rv, args=one, alphabet=A7, nops=4, parts=4)),
        ("rv-int-3", dict(rv, args=two, alphabet=A7, nops=3)),
        ("rv-int-4b", dict(rv, args=two, alphabet=A5, nops=4, min_nops=4, parts=8)),
        ("rv-int-5", dict(rv, args=((),), alphabet=A5, nops=5, min_nops=5, parts=8)),
        ("rv-wide-3", dict(rv, args=ARGS_RV, alphabet=A10, nops=3, ret_max=2, pass_nops=3, pass_nops_all=2,
                           parts=4)),
        ("rv-float", dict(rv, args=one, alphabet=("li5", "float"), nops=5)),
        ("rv-for", dict(rv, args=((),), alphabet=("li5", "mv", "add"), nops=3,
                        **{"for": True, "for_li": True, "for_exotic_yield": True, "for_body2": "dependent",
                           "parts": 48})),
        ("rv-for-u", dict(rv, args=(("u",),), alphabet=("li5", "mv", "add"), nops=2,
                          **{"for": True, "for_li": True, "for_exotic_yield": True, "for_body2": "dependent",
                             "parts": 16})),
        ("rv-for-u3", dict(rv, args=(("u",),), alphabet=("li5", "mv", "add"), nops=3, min_nops=3,
                           **{"for": True, "for_li": True, "for_steps": "static-or-last", "parts": 24})),
        ("rv-nest", dict(rv, family="nest", args=(), nops=9, **{"for": True}, nest_args=4, nest_pre=(0, 1, 2),
                         nest_post=(0, 1, 2), parts=48,
                         modes=(("npool", 5), ("npool", 6), ("npool", 7), ("npool", 8), ("npool", 10),
                                ("pass", "default")))),
        ("rv-prenest", dict(rv, family="prenest", args=(), nops=9, **{"for": True},
                            pre_args=(("a0",), ("a1",), ("a0", "a1"), ("a1", "a0")),
                            pressure=(0, 1, 2, 3, 4, 5, 6, 7), parts=8,
                            modes=(("npool", 3), ("npool", 4), ("npool", 5), ("npool", 6), ("npool", 7),
                                   ("npool", 8), ("npool", 9), ("npool", 10), ("pass", "default")))),
        ("rv-forpre", dict(rv, family="forpre", args=(), nops=9, **{"for": True}, forpre_args=3,
                           forpre_mid=(0, 1, 2), parts=24,
                           modes=(("npool", 4), ("npool", 5), ("npool", 6), ("npool", 7), ("npool", 8),
                                  ("pass", "default")))),
        ("rv-getreg-in-body", dict(rv, family="getreg-in-body", args=(), nops=9, **{"for": True},
                                   body_regs=("t0", "a0", "t1", "a1", "t2", "a2"),
                                   pressure=(0, 1, 2, 3, 4, 5, 6, 7), parts=8,
                                   modes=(("npool", 3), ("npool", 4), ("npool", 5), ("npool", 6), ("npool", 7),
                                          ("npool", 8), ("npool", 9), ("npool", 10), ("pass", "default")))),
        ("x86", dict(x86, args=ARGS_X86, nops=3, nops_by_args={(): 4, ("u",): 4, ("rdi",): 4}, parts=6)),
    ]


def make_tasks(ctx):
    tasks = []
    for ci, (name, cfg) in enumerate(configs(ctx.quick)):
        if cfg.get("family"):
            for part in range(cfg["parts"]):
                tasks.append((ctx.quick, ci, (), None, part, cfg["parts"], ctx.seed))
            continue
        for args in cfg["args"]:
            if cfg["target"] == "x86":
                firsts = list(x86_choices([True] * len(args), cfg))
            else:
                firsts = list(rv_choices([("i", a == "u") for a in args], cfg))
            for first in firsts:
                for part in range(cfg["parts"]):
                    tasks.append((ctx.quick, ci, args, first, part, cfg["parts"], ctx.seed))
    return tasks


def run(ctx):
    _selftest()
    tasks = make_tasks(ctx)
    cfgs = configs(ctx.quick)
    # longest programs first so the pool drains evenly (order does not influence any result)
    tasks.sort(key=lambda t: -(cfgs[t[1]][1]["nops_by_args"].get(t[2], cfgs[t[1]][1]["nops"])
                               if cfgs[t[1]][1]["target"] == "x86" else cfgs[t[1]][1]["nops"] + 2 * cfgs[t[1]][1]["for"]))
    best: dict = {}
    for _, st in pmap(_shard, tasks):
        for sig, v in st.violations.items():
            if sig not in best or _wkey(v["witness"]) < _wkey(best[sig]["witness"]):
                best[sig] = v
        ctx.merge(st)
    for sig, v in best.items():
        ctx.stats.violations[sig]["witness"] = v["witness"]
        ctx.stats.violations[sig]["what"] = v["what"]
    ctx.bounds = {name: {k: (v if not isinstance(v, dict) else {str(a): b for a, b in v.items()})
                         for k, v in cfg.items()} for name, cfg in configs(ctx.quick)}
    ctx.bounds["pools"] = {"riscv": list(RV_POOL), "riscv-float": list(RV_FPOOL), "x86": list(X86_POOL),
                           "rule": "pool n = first n registers"}
    ctx.rule = ("every single-block function whose body is an op sequence of length 1..nops over the configuration's "
                "alphabet with every operand wiring over earlier values and arguments, times every return-operand "
                "subset up to ret_max, times every argument configuration; plus every depth-2 loop nest of family "
                "rv-nest and every program of families rv-prenest, rv-forpre, rv-getreg-in-body (see the module "
                "docstring); one state = one program; "
                "transitions = "
                "generator-tree edges (ops appended); executions = runs of the real allocator (one per program and "
                "pool/mode) judged by the oracle; non-trivial = a program for which some pool made the allocator "
                "succeed while giving one physical register to at least two different SSA values")
    ctx.assumptions = [
        "a value of type !riscv.reg<r> / !x86.reg64<r> lives in register r; a two-address x86 instruction writes the "
        "register of its tied operand (what the assembly printer emits)",
        "riscv_scf.for at register level = mv iv,lb; bge iv,ub; body; add iv,iv,step; blt iv,ub (the lowering in "
        "convert_riscv_scf_to_riscv_cf); unrolling 0,1,2 iterations exposes every clobber; a loop whose bounds are "
        "compile-time constants (or the same value) is executed only for its real trip count, any other loop is "
        "assumed able to run 0, 1 or 2+ times (the usual all-paths-feasible reading of liveness)",
        "raising DiagnosticException (OutOfRegisters included) is the documented way to report failure",
        "x86: the use of a value as two-address operand must be its last use (documented on HasRegisterConstraints); "
        "programs violating it are legalized with x86-regalloc-legalize first",
    ]


def replay(rep) -> bool:
    w = rep["witness"]
    st = Stats()
    prog = _tup(w["prog"])
    check_case(st, w["target"], prog, tuple(w["mode"]), legalize=w.get("legalize", False))
    return rep["signature"] not in st.violations
