"""C20 — parallel-move lowering performs a simultaneous assignment.

Fully exhaustive enumeration of move graphs (no sampling): destinations are every non-empty ORDERED
subset of D integer registers and of <= F float registers, every destination's source is any register
of the same class from a pool of D+1 (F+1) registers (so chains, fan-outs, every cycle structure,
self-moves and trees hanging off cycles all arise), x every designated `free_registers` list (bounded
size) disjoint from the operands x operand widths {32,64} x two ways of giving SSA values to the
sources (one value per register / one value per operand).

Every case builds a real `riscv.parallel_mov` between a producing and a consuming `test.op` inside a
`builtin.module`, verifies it (non-verifying inputs are skipped and counted), runs the real
`RISCVLowerParallelMovPass`, and executes the ops found between producer and consumer on the symbolic
register machine below (written here, independent of xDSL's lowering and interpreters):

* every register initially holds the symbol set {its own name}; `zero` holds {} and ignores writes;
* `riscv.mv` copies, `riscv.fmv.d` copies, `riscv.fmv.s` copies the symbols but marks the value as
  "low 32 bits only", `riscv.xor` is the symmetric difference of symbol sets (so xor-swaps are exact);
* any other op kind is reported.

Oracle (register level, nothing about the order or choice of instructions): every destination ends
holding exactly its source's initial symbol (a 64-bit float operand must not have been narrowed); no
register other than the destinations and the designated free registers changed; the values that replace
the op's results live in the destination registers; a raised PassFailedException/DiagnosticException
is an allowed outcome ("reported-failure"), any other exception is a crash.
"""
from __future__ import annotations

import itertools

from mc.stats import Stats
from mc.pool import pmap

INT_POOL = ("a0", "a1", "a2", "a3", "a4", "a5", "a6")
FLT_POOL = ("fa0", "fa1", "fa2", "fa3")
INT_OUTSIDE = ("t0", "t1")
FLT_OUTSIDE = ("ft0", "ft1")
ZERO = "zero"


def is_float(reg: str) -> bool:
    return reg.startswith("f")


# ------------------------------------------------------------------------------------------------
# symbolic register machine
# ------------------------------------------------------------------------------------------------
class Machine:
    """Register file of symbolic values.  A value is (frozenset of symbols, full) where the set is an
    XOR-combination of initial register contents and full=False means only the low 32 bits survive."""

    def __init__(self) -> None:
        self.regs: dict[str, tuple[frozenset, bool]] = {}
        self.written: list[str] = []

    @staticmethod
    def initial(reg: str) -> tuple[frozenset, bool]:
        if reg == ZERO:
            return (frozenset(), True)
        return (frozenset((reg,)), True)

    def read(self, reg: str) -> tuple[frozenset, bool]:
        if reg == ZERO:
            return (frozenset(), True)
        v = self.regs.get(reg)
        return self.initial(reg) if v is None else v

    def write(self, reg: str, val: tuple[frozenset, bool]) -> None:
        self.written.append(reg)
        if reg == ZERO:
            return
        self.regs[reg] = val

    def touched(self):
        return sorted(set(self.regs))


def _regname(t) -> str | None:
    """Register name of an SSA value type, or None when it is not an allocated RISC-V register."""
    from xdsl.dialects import riscv

    if not isinstance(t, (riscv.IntRegisterType, riscv.FloatRegisterType)):
        return None
    name = t.register_name.data
    return name or None


def execute(ops, machine: Machine) -> tuple[list[str], str | None, int]:
    """Run the emitted ops.  Returns (asm-like trace, problem or None, ssa/register divergences)."""
    trace: list[str] = []
    ssa: dict[int, tuple[frozenset, bool]] = {}
    keep = []  # keep SSA values alive so id() stays unique
    diverged = 0
    for op in ops:
        name = op.name
        if name not in ("riscv.mv", "riscv.fmv.s", "riscv.fmv.d", "riscv.xor"):
            return trace, f"unexpected-op:{name}", diverged
        nin = 2 if name == "riscv.xor" else 1
        if len(op.operands) != nin or len(op.results) != 1:
            return trace, f"malformed-op:{name}", diverged
        srcs = [_regname(o.type) for o in op.operands]
        rd = _regname(op.results[0].type)
        if rd is None or any(s is None for s in srcs):
            return trace, f"unallocated-register:{name}", diverged
        want_float = name.startswith("riscv.fmv")
        if any(is_float(r) != want_float for r in srcs + [rd]):
            return trace, f"register-class-mismatch:{name}", diverged
        vals = []
        for o, r in zip(op.operands, srcs):
            v = machine.read(r)
            if id(o) in ssa and ssa[id(o)] != v:
                diverged += 1
            vals.append(v)
        if name == "riscv.xor":
            out = (vals[0][0] ^ vals[1][0], True)
        elif name == "riscv.fmv.s":
            out = (vals[0][0], False)
        else:
            out = vals[0]
        machine.write(rd, out)
        keep.append(op.results[0])
        ssa[id(op.results[0])] = machine.read(rd)
        trace.append(f"{name[6:]} {rd}, " + ", ".join(srcs))
    return trace, None, diverged


# ------------------------------------------------------------------------------------------------
# runaway guard: the pass may loop for ever (emitting ops without end); interpose on the rewriter
# ------------------------------------------------------------------------------------------------
class _Runaway(BaseException):
    """Deliberately not an Exception: the pattern walker must not convert it into a diagnostic."""


_BUDGET = [0]
_HOOKED = [False]
HANG_SECONDS = 30


def _install_guard() -> None:
    if _HOOKED[0]:
        return
    import signal

    from xdsl.pattern_rewriter import PatternRewriter

    orig = PatternRewriter.insert

    def insert(self, op, *a, **k):
        _BUDGET[0] -= 1
        if _BUDGET[0] < 0:
            raise _Runaway("op-budget")
        return orig(self, op, *a, **k)

    PatternRewriter.insert = insert

    def on_alarm(*_):
        raise _Runaway("wall-clock")

    signal.signal(signal.SIGALRM, on_alarm)
    _HOOKED[0] = True


def op_budget(nmoves: int) -> int:
    """No correct lowering of n moves needs more than 3 ops per move plus a scratch copy per cycle;
    the guard only fires far beyond that."""
    return 16 * nmoves + 64


# ------------------------------------------------------------------------------------------------
# one case
# ------------------------------------------------------------------------------------------------
_RT: dict[str, object] = {}


def rt(r: str):
    t = _RT.get(r)
    if t is None:
        from xdsl.dialects import riscv

        t = _RT[r] = (riscv.FloatRegisterType if is_float(r) else riscv.IntRegisterType).from_name(r)
    return t


def graph_features(moves):
    """moves: list of (src, dst, width).  Independent description of the move graph."""
    real = [(s, d) for s, d, _ in moves if s != d]
    src_of = {d: s for s, d in real if d != ZERO}
    cyc_int = cyc_flt = 0
    longest = {False: 0, True: 0}
    seen: set[str] = set()
    for start in sorted(src_of):
        if start in seen:
            continue
        path = []
        x = start
        while x in src_of and x not in seen and x not in path:
            path.append(x)
            x = src_of[x]
        if x in path:  # new cycle
            n = len(path) - path.index(x)
            longest[is_float(x)] = max(longest[is_float(x)], n)
            if is_float(x):
                cyc_flt += 1
            else:
                cyc_int += 1
        seen.update(path)
    fan = len({s for s, _ in real}) < len(real)
    return {"nonself": len(real), "cyc_int": cyc_int, "cyc_flt": cyc_flt, "fanout": fan,
            "longest_int": longest[False], "longest_flt": longest[True]}


def build_module(moves, free, ssa_mode):
    from xdsl.dialects import riscv, test
    from xdsl.dialects.builtin import ArrayAttr, DenseArrayBase, ModuleOp, i32

    if ssa_mode == "shared":
        keys = []
        for s, _, _ in moves:
            if s not in keys:
                keys.append(s)
        prod = test.TestOp(result_types=[rt(s) for s in keys])
        byreg = dict(zip(keys, prod.results))
        inputs = [byreg[s] for s, _, _ in moves]
    else:  # one SSA value per operand, even when two operands live in the same register
        prod = test.TestOp(result_types=[rt(s) for s, _, _ in moves])
        inputs = list(prod.results)
    pm = riscv.ParallelMovOp(
        inputs,
        [rt(d) for _, d, _ in moves],
        DenseArrayBase.from_list(i32, [w for _, _, w in moves]),
        ArrayAttr([rt(f) for f in free]) if free is not None else None,
    )
    cons = test.TestOp(operands=pm.results)
    return ModuleOp([prod, pm, cons]), prod, pm, cons


def run_case(moves, free, ssa_mode, built=None):
    """Returns (status, info).  status in not-verified | reported-failure | crash | ok | bad.
    `built` = (module, producer, consumer) when the parallel move was built by somebody else (helper family)."""
    from xdsl.context import Context
    from xdsl.transforms.riscv_lower_parallel_mov import RISCVLowerParallelMovPass
    from xdsl.utils.exceptions import DiagnosticException, VerifyException

    if built is None:
        module, prod, _, cons = build_module(moves, free, ssa_mode)
    else:
        module, prod, cons = built
    try:
        module.verify()
    except VerifyException as e:
        return "not-verified", {"error": str(e).splitlines()[0][:80]}
    import signal

    _install_guard()
    _BUDGET[0] = op_budget(len(moves))
    signal.setitimer(signal.ITIMER_REAL, HANG_SECONDS)
    try:
        RISCVLowerParallelMovPass().apply(Context(), module)
    except DiagnosticException as e:
        return "reported-failure", {"exception": type(e).__name__}
    except _Runaway as e:
        return "runaway", {"guard": str(e), "op_budget": op_budget(len(moves))}
    except Exception as e:  # noqa: BLE001
        return "crash", {"exception": type(e).__name__, "message": str(e).splitlines()[0][:120] if str(e) else ""}
    finally:
        signal.setitimer(signal.ITIMER_REAL, 0)
        _BUDGET[0] = 1 << 60
    block = module.body.block
    ops = list(block.ops)
    problems: list[tuple[str, str, dict]] = []
    if len(ops) < 2 or ops[0] is not prod or ops[-1] is not cons:
        return "bad", {"problems": [("harness-ops-moved", "producer/consumer ops were moved or erased", {})]}
    emitted = ops[1:-1]
    m = Machine()
    trace, problem, diverged = execute(emitted, m)
    info = {"trace": trace, "diverged": diverged, "kinds": sorted({t.split(" ")[0] for t in trace})}
    if problem is not None:
        kind, _, opname = problem.partition(":")
        problems.append((f"{kind}|{opname}", f"emitted sequence contains {problem}", {}))
        info["problems"] = problems
        return "bad", info
    dests = [d for _, d, _ in moves]
    freeset = set(free or ())
    nevals = 0
    # 1. every destination holds its source's initial value
    for i, (s, d, w) in enumerate(moves):
        if d == ZERO:
            continue
        nevals += 1
        got = m.read(d)
        want = Machine.initial(s)
        cls = "float" if is_float(d) else "int"
        if got[0] != want[0]:
            problems.append((f"{cls}|destination-holds-wrong-value",
                             f"destination {d} ends with {sorted(got[0])}, expected the initial value of {s}",
                             {"operand": i, "dst": d, "src": s, "got": sorted(got[0])}))
        elif w == 64 and is_float(d) and not got[1]:
            problems.append((f"{cls}|64-bit-value-moved-with-fmv.s",
                             f"64-bit operand {s}->{d} was copied with fmv.s (low 32 bits only)",
                             {"operand": i, "dst": d, "src": s}))
    # 2. nothing else changed
    universe = set(m.touched()) | {s for s, _, _ in moves}
    for r in sorted(universe):
        if r in dests or r in freeset or r == ZERO:
            continue
        nevals += 1
        got = m.read(r)
        if got != Machine.initial(r):
            cls = "float" if is_float(r) else "int"
            role = "source-only-register" if any(s == r for s, _, _ in moves) else "unrelated-register"
            problems.append((f"{cls}|clobbers-{role}",
                             f"register {r} is neither a destination nor a designated free register but ends with "
                             f"{sorted(got[0])}", {"register": r, "got": sorted(got[0])}))
    # 3. the values that replace the results live in the destination registers
    if len(cons.operands) != len(moves):
        problems.append(("results|wrong-count", "consumer lost operands", {}))
    else:
        for i, (o, (_, d, _)) in enumerate(zip(cons.operands, moves)):
            nevals += 1
            if _regname(o.type) != d:
                problems.append(("results|replacement-in-wrong-register",
                                 f"result {i} (register {d}) was replaced by a value typed {_regname(o.type)}",
                                 {"operand": i, "dst": d, "got": _regname(o.type)}))
    info["evals"] = nevals
    if problems:
        info["problems"] = problems
        return "bad", info
    return "ok", info


def involves_zero(moves) -> bool:
    return any(d == ZERO or (s == ZERO and s != d) for s, d, _ in moves)


def predicate(moves, free, ssa_mode, offending_float: bool | None, trace=None) -> str:
    """The varying-data-free part of a signature: which kind of input / which code path failed."""
    if involves_zero(moves):
        # everything that involves the hard-wired zero register is one family of inputs
        return "zero-reg"
    parts = []
    if offending_float is not None:
        f = graph_features(moves)
        cyc = f["cyc_flt"] if offending_float else f["cyc_int"]
        hasfree = any(is_float(x) == offending_float for x in (free or ()))
        longest = f["longest_flt"] if offending_float else f["longest_int"]
        via_xor = (not offending_float) and trace is not None and any(t.startswith("xor ") for t in trace)
        # the cycle length is only part of the predicate on the xor-swap path (2-cycles and longer cycles are
        # rotated by different numbers of swaps); everywhere else "cycle" / "acyclic" identifies the code path
        cyc_tag = "acyclic" if not cyc else "cycle" if not via_xor else "cycle2" if longest == 2 else "cycle3+"
        parts += ["float" if offending_float else "int", cyc_tag, "free" if hasfree else "nofree"]
        if not offending_float and trace is not None:
            parts.append("via=xor" if via_xor else "via=mv")
    parts.append(f"ssa={ssa_mode}")
    return ",".join(parts)


def _wkey(w) -> tuple:
    return (len(w["moves"]), len(w["free"] or ()), sum(1 for s, d, _ in w["moves"] if s == d), repr(w["moves"]), repr(w["free"]))


def _violate(st: Stats, sig: str, what: str, wit: dict) -> None:
    """st.violate, but keep the smallest witness (deterministic choice) instead of the first one."""
    st.violate(sig, what, wit)
    v = st.violations[sig]
    if _wkey(wit) < _wkey(v["witness"]):
        v["witness"] = wit
        v["what"] = what


def check_case(st: Stats, moves, free, ssa_mode, shared_kinds=None, sample=False, built=None, helper=None, opwidths=None):
    """Run one case and record everything.  Returns the set of failure kinds (for attribution of the
    per-operand SSA mode: a kind already failing with shared SSA values is not reported again)."""
    moves = [tuple(x) for x in moves]
    feats = graph_features(moves)
    st.states += 1
    st.transitions += len(moves)
    if feats["nonself"]:
        st.nontrivial += 1
    wit = {"moves": [list(x) for x in moves], "free": None if free is None else list(free), "ssa": ssa_mode}
    if helper is not None:
        wit["helper"] = helper
    status, info = run_case(moves, free, ssa_mode, built)
    kinds: set[str] = set()
    if status == "not-verified":
        if helper is not None:  # our own inputs are only skipped; an op built by xDSL's helper must verify
            st.executions += 1
            st.outcomes["violation"] += 1
            _violate(st, f"C20|riscv-lower-parallel-mov|helper={helper['entry']}|builds-op-that-does-not-verify",
                     f"{helper['entry']} built a riscv.parallel_mov that does not verify: {info['error']}", wit)
            return {"not-verified"}
        st.bump("skipped_not_verified")
        st.outcomes["skipped:not-verified"] += 1
        return kinds
    st.executions += 1
    shape = ("cyc" if feats["cyc_int"] + feats["cyc_flt"] else "acyc") + ("+free" if free else "")
    if status == "reported-failure":
        st.outcomes[f"reported-failure:{info['exception']}|{shape}"] += 1
        st.evaluations += 1
        if not (feats["cyc_int"] + feats["cyc_flt"]):
            st.bump("reported_failure_on_acyclic_graph")  # allowed, but worth seeing
        if sample:
            st.sample({**wit, "outcome": "reported-failure"})
        return kinds
    if status in ("crash", "runaway"):
        st.evaluations += 1
        if status == "crash":
            st.outcomes[f"crash:{info['exception']}"] += 1
            kind = f"crash:{info['exception']}"
            what = f"the pass raised {info['exception']} ({info['message']}) instead of lowering or reporting failure"
        else:
            st.outcomes[f"runaway:{info['guard']}"] += 1
            kind = "does-not-terminate:" + ("emits-ops-without-end" if info["guard"] == "op-budget" else "wall-clock")
            what = (f"the pass did not terminate (guard: {info['guard']}; more than {info['op_budget']} ops inserted "
                    f"or {HANG_SECONDS}s elapsed)")
            if info["guard"] != "op-budget":
                st.cap(f"a case ran into the {HANG_SECONDS}s wall-clock guard")
        kinds.add(kind)
        if not (shared_kinds and kind in shared_kinds):
            _violate(st, f"C20|riscv-lower-parallel-mov|{predicate(moves, free, ssa_mode, None)}|{kind}", what, {**wit, **info})
        return kinds
    st.evaluations += info.get("evals", 1)
    if info.get("diverged"):
        st.bump("ssa_register_divergence")
    if status == "ok":
        k = "+".join(info["kinds"]) or "no-ops"
        st.outcomes[f"ok:{k}|{shape}"] += 1
        if sample:
            st.sample({**wit, "emitted": info["trace"]})
        return kinds
    st.outcomes["violation"] += 1
    for kind, what, extra in info["problems"]:
        kinds.add(kind)
        if shared_kinds and kind in shared_kinds:
            continue
        cls, _, failure = kind.partition("|")
        off = True if cls == "float" else False if cls == "int" else None
        pred = predicate(moves, free, ssa_mode, off, info.get("trace"))
        if off is None:
            failure = kind.replace("|", ":")
        if helper is not None:
            # blame the helper only for what it decides: the operand width it declared and the result registers;
            # everything else is the lowering's doing and keeps the signature of the direct families
            i = extra.get("operand")
            if cls == "results" or (failure == "64-bit-value-moved-with-fmv.s" and opwidths is not None
                                    and i is not None and opwidths[i] != moves[i][2]):
                pred = f"helper={helper['entry']}," + pred
        _violate(st, f"C20|riscv-lower-parallel-mov|{pred}|{failure}", what, {**wit, "emitted": info.get("trace"), **extra})
    return kinds


def check_graph(st: Stats, moves, free, sample=False, per_operand=True):
    """shared SSA values, and (only when some source register is used twice) one value per operand."""
    srcs = [s for s, _, _ in moves]
    consistent = len({(s, w) for s, _, w in moves}) == len(set(srcs))
    k = None
    if consistent:  # one SSA value has one width: a shared value is never declared both 32 and 64 bits wide
        k = check_case(st, moves, free, "shared", None, sample)
    else:
        # attribution only: which failure kinds does the same graph already show with shared values and one
        # (the first) width per source?  Those are not reported again under ssa=per-operand.
        st.bump("shared_mode_skipped_inconsistent_widths")
        first_w: dict[str, int] = {}
        for s_, _, w_ in moves:
            first_w.setdefault(s_, w_)
        k = check_case(Stats(), [(s_, d_, first_w[s_]) for s_, d_, _ in moves], free, "shared")
    if (per_operand or not consistent) and len(set(srcs)) < len(srcs):
        check_case(st, moves, free, "per-operand", k, False)


# ------------------------------------------------------------------------------------------------
# helper family: the entry points of backend/riscv/lowering/utils.py that BUILD parallel moves
# ------------------------------------------------------------------------------------------------
HELPERS = ("move_to_regs", "move_to_a_regs", "move_to_unallocated_regs")
KINDS = ("i:i32", "i:index", "i:reg", "f:f32", "f:f64", "f:reg")
DEFAULT_FLEN = 64  # documented defaults of the helpers: float registers are 64 bits wide,
DEFAULT_XLEN = 32  # integer registers 32


def prescribed_width(kind: str, flen: int | None, xlen: int | None) -> int:
    """Width at which a value of this kind must be moved (independent statement of the helpers' contract):
    the bit width of the value type when it has one, else the width of the register it lives in."""
    if kind == "i:i32" or kind == "f:f32":
        return 32
    if kind == "f:f64":
        return 64
    if kind.startswith("f:"):
        return DEFAULT_FLEN if flen is None else flen
    return DEFAULT_XLEN if xlen is None else xlen


def abi_destinations(kinds) -> list[str]:
    """k-th integer value -> a<k>, k-th float value -> fa<k> (separate counters, RISC-V calling convention)."""
    out, ni, nf = [], 0, 0
    for k in kinds:
        if k.startswith("f:"):
            out.append(f"fa{nf}")
            nf += 1
        else:
            out.append(f"a{ni}")
            ni += 1
    return out


def check_helper_case(st: Stats, entry: str, kinds, srcs, flen, xlen, sample=False) -> None:
    from xdsl.backend.riscv.lowering import utils
    from xdsl.dialects import builtin, riscv, test
    from xdsl.dialects.builtin import ModuleOp

    dsts = abi_destinations(kinds)
    moves = [(s, d, prescribed_width(k, flen, xlen)) for s, d, k in zip(srcs, dsts, kinds)]
    hinfo = {"entry": entry, "kinds": list(kinds), "flen": flen, "xlen": xlen}
    wit = {"moves": [list(m) for m in moves], "free": None, "ssa": "shared", "helper": hinfo}
    prod = test.TestOp(result_types=[rt(s) for s in srcs])  # sources are distinct registers: one value each
    values = list(prod.results)
    vtypes = []
    for k, v in zip(kinds, values):
        t = k.split(":")[1]
        vtypes.append({"i32": builtin.i32, "index": builtin.IndexType(), "f32": builtin.f32, "f64": builtin.f64}.get(t, v.type))
    kwargs = {}
    if flen is not None:
        kwargs["flen"] = flen
    if xlen is not None:
        kwargs["xlen"] = xlen
    st.transitions += 1
    try:
        if entry == "move_to_regs":
            ops, new_values = utils.move_to_regs(values, vtypes, [rt(d) for d in dsts], **kwargs)
        else:
            ops, new_values = getattr(utils, entry)(values, vtypes, **kwargs)
    except Exception as e:  # noqa: BLE001
        st.states += 1
        st.executions += 1
        st.outcomes[f"helper-crash:{type(e).__name__}"] += 1
        _violate(st, f"C20|riscv-lower-parallel-mov|helper={entry}|crash:{type(e).__name__}",
                 f"{entry} raised {type(e).__name__} on well-formed values", {**wit, "message": str(e)[:120]})
        return
    ops, new_values = list(ops), list(new_values)
    pms = [o for o in ops if o.name == "riscv.parallel_mov"]
    if len(pms) != 1 or len(ops) != 1 or new_values != list(pms[0].results):
        # a different (possibly perfectly fine) way of building the moves: nothing this family can judge
        st.states += 1
        st.bump("helper_output_not_a_single_parallel_mov")
        st.outcomes["helper:unexpected-shape"] += 1
        return
    pm = pms[0]
    opwidths = [int(w) for w in pm.input_widths.get_values()]
    got_dsts = [_regname(r.type) for r in pm.results]
    if entry == "move_to_unallocated_regs":
        # the helper leaves the outputs to the register allocator; play allocator: same operands, same widths,
        # same free registers, outputs allocated to the ABI registers
        classes_ok = all(g is None and type(r.type) is type(v.type) for g, r, v in zip(got_dsts, pm.results, values))
        if not classes_ok:
            st.states += 1
            st.executions += 1
            st.outcomes["violation"] += 1
            _violate(st, f"C20|riscv-lower-parallel-mov|helper={entry}|outputs-not-unallocated-registers-of-the-input-class",
                     f"{entry} produced outputs {[str(r.type) for r in pm.results]}", wit)
            return
        pm = riscv.ParallelMovOp(list(pm.inputs), [rt(d) for d in dsts], pm.input_widths, pm.free_registers)
    elif got_dsts != dsts:
        st.states += 1
        st.executions += 1
        st.outcomes["violation"] += 1
        _violate(st, f"C20|riscv-lower-parallel-mov|helper={entry}|wrong-destination-registers",
                 f"{entry} moves to {got_dsts}, expected {dsts}", {**wit, "got": got_dsts})
        return
    cons = test.TestOp(operands=pm.results)
    module = ModuleOp([prod, pm, cons])
    check_case(st, moves, None, "shared", None, sample, built=(module, prod, cons), helper=hinfo, opwidths=opwidths)


def helper_cases(lengths, argcombos):
    """every sequence of value kinds of the given lengths x every injective choice of source registers from
    the pool (destination registers of the class + one outside register) x every (flen, xlen) argument combo"""
    for n in lengths:
        for kinds in itertools.product(KINDS, repeat=n):
            ni = sum(1 for k in kinds if k.startswith("i:"))
            nf = n - ni
            ipool = [f"a{i}" for i in range(ni)] + ["t2"]
            fpool = [f"fa{i}" for i in range(nf)] + ["ft2"]
            for isrc in itertools.permutations(ipool, ni):
                for fsrc in itertools.permutations(fpool, nf):
                    ii, fi = iter(isrc), iter(fsrc)
                    srcs = tuple(next(fi) if k.startswith("f:") else next(ii) for k in kinds)
                    for flen, xlen in argcombos:
                        yield kinds, srcs, flen, xlen


def _helper_shard(task) -> Stats:
    st = Stats()
    entry, n, first_kind, argcombos, seed = task
    count = 0
    for kinds, srcs, flen, xlen in helper_cases((n,), argcombos):
        if kinds[0] != first_kind:
            continue
        count += 1
        check_helper_case(st, entry, kinds, srcs, flen, xlen, sample=(count + seed * 31) % 1499 == 0)
    return st


# ------------------------------------------------------------------------------------------------
# enumeration
# ------------------------------------------------------------------------------------------------
def ordered_subsets(regs, allow_empty=False):
    if allow_empty:
        yield ()
    for k in range(1, len(regs) + 1):
        yield from itertools.permutations(regs, k)


def free_lists(cands, maxsize, ordered):
    """None (property absent) and every list of up to maxsize candidates."""
    yield None
    for k in range(1, maxsize + 1):
        if ordered:
            yield from itertools.permutations(cands, k)
        else:
            yield from itertools.combinations(cands, k)


def interleavings(a, b, all_orders):
    """Merge two sequences keeping each one's internal order."""
    if not a or not b:
        yield tuple(a) + tuple(b)
        return
    if not all_orders:
        yield tuple(a) + tuple(b)
        yield tuple(b) + tuple(a)
        return
    n = len(a) + len(b)
    for pos in itertools.combinations(range(n), len(a)):
        out = [None] * n
        ia = iter(a)
        for p in pos:
            out[p] = next(ia)
        ib = iter(b)
        for i in range(n):
            if out[i] is None:
                out[i] = next(ib)
        yield tuple(out)


def _dispatch(task) -> Stats:
    return _helper_shard(task[1]) if isinstance(task, tuple) and task[0] == "helper" else _shard(task)


def _shard(task) -> Stats:
    """task = dict(idsts, fdsts, ipool, fpool, first, free_max, free_ordered, int_widths, all_orders,
    zero, seed)"""
    st = Stats()
    idsts, fdsts = tuple(task["idsts"]), tuple(task["fdsts"])
    ipool, fpool = tuple(task["ipool"]), tuple(task["fpool"])
    seed = task["seed"]
    count = 0
    first = task["first"]
    isrc_iter = [first] if idsts else [None]
    for f0 in isrc_iter:
        rest_i = itertools.product(ipool, repeat=max(len(idsts) - 1, 0)) if idsts else [()]
        for ri in rest_i:
            isrcs = ((f0,) + tuple(ri)) if idsts else ()
            fsrc_all = itertools.product(fpool, repeat=len(fdsts)) if fdsts else [()]
            if not idsts and fdsts:
                fsrc_all = (x for x in fsrc_all if x[0] == first)
            for fsrcs in fsrc_all:
                used = set(idsts) | set(fdsts) | set(isrcs) | set(fsrcs)
                cands = [r for r in ipool if r not in used and r != ZERO] + [INT_OUTSIDE[0]]
                if task["free_max"] > 1:
                    cands.append(INT_OUTSIDE[1])
                if fdsts:
                    cands += [r for r in fpool if r not in used] + [FLT_OUTSIDE[0]]
                    if task["free_max"] > 1:
                        cands.append(FLT_OUTSIDE[1])
                for iw in task["int_widths"]:
                    imoves = [(s, d, iw) for s, d in zip(isrcs, idsts)]
                    for fw in itertools.product((32, 64), repeat=len(fdsts)):
                        fmoves = [(s, d, w) for s, d, w in zip(fsrcs, fdsts, fw)]
                        for moves in interleavings(imoves, fmoves, task["all_orders"]):
                            for free in free_lists(cands, task["free_max"], task["free_ordered"]):
                                count += 1
                                check_graph(st, moves, free, (count + seed * 97) % 3001 == 0, task["per_operand"])
    return st


def _selftest() -> None:
    """Hand-computed cases for the register machine and the oracle (a failure is a harness error)."""

    class V:  # minimal stand-ins for SSA values / ops: only .type, .name, .operands, .results are read
        def __init__(self, reg):
            self.type = rt(reg)

    class O:
        def __init__(self, name, rd, *rs):
            self.name, self.operands, self.results = name, list(rs), [V(rd)]

    def run(prog):
        m = Machine()
        vals: dict[str, V] = {}
        ops = []
        for name, rd, *rs in prog:
            o = O(name, rd, *[vals.get(r) or V(r) for r in rs])
            vals[rd] = o.results[0]
            ops.append(o)
        trace, problem, _ = execute(ops, m)
        return m, problem

    swap = [("riscv.xor", "a0", "a0", "a1"), ("riscv.xor", "a1", "a0", "a1"), ("riscv.xor", "a0", "a0", "a1")]
    m, p = run(swap)
    assert p is None and m.read("a0") == Machine.initial("a1") and m.read("a1") == Machine.initial("a0")
    m, p = run(swap[:2])  # unfinished swap: a0 still holds a0^a1
    assert m.read("a0")[0] == frozenset(("a0", "a1")) and m.read("a1") == Machine.initial("a0")
    m, p = run([("riscv.mv", "t0", "a0"), ("riscv.mv", "a0", "a1"), ("riscv.mv", "a1", "t0")])
    assert m.read("a0") == Machine.initial("a1") and m.read("a1") == Machine.initial("a0") and m.read("t0") == Machine.initial("a0")
    m, p = run([("riscv.mv", "a0", "a1"), ("riscv.mv", "a1", "a0")])  # naive sequential swap is wrong
    assert m.read("a1") == Machine.initial("a1")
    m, p = run([("riscv.mv", "zero", "a0"), ("riscv.mv", "a1", "zero")])
    assert m.read("zero")[0] == frozenset() and m.read("a1")[0] == frozenset() and m.read("a0") == Machine.initial("a0")
    m, p = run([("riscv.fmv.s", "fa1", "fa0"), ("riscv.fmv.d", "fa2", "fa1"), ("riscv.fmv.d", "fa3", "fa0")])
    assert m.read("fa1") == (frozenset(("fa0",)), False) and m.read("fa2")[1] is False and m.read("fa3") == Machine.initial("fa0")
    assert run([("riscv.add", "a0", "a0", "a1")])[1] == "unexpected-op:riscv.add"
    assert run([("riscv.mv", "fa0", "a1")])[1] == "register-class-mismatch:riscv.mv"
    f = graph_features([("a0", "a1", 32), ("a1", "a2", 32), ("a2", "a0", 32), ("a2", "a3", 32), ("fa0", "fa0", 32)])
    assert (f["cyc_int"], f["cyc_flt"], f["longest_int"], f["nonself"], f["fanout"]) == (1, 0, 3, 4, True)
    f = graph_features([("a0", "a1", 32), ("a1", "a0", 32), ("a3", "a2", 32)])
    assert (f["cyc_int"], f["longest_int"], f["fanout"]) == (1, 2, False)
    assert abi_destinations(("i:reg", "f:f64", "i:i32", "f:reg")) == ["a0", "fa0", "a1", "fa1"]
    assert [prescribed_width(k, None, None) for k in KINDS] == [32, 32, 32, 32, 64, 64]
    assert [prescribed_width(k, 32, 64) for k in KINDS] == [32, 64, 64, 32, 64, 32]


def make_tasks(ctx):
    q = ctx.quick
    seed = ctx.seed
    tasks = []
    fam = []

    def add(D, F, free_max, free_ordered, int_widths, all_orders, zero=0, per_operand=True, label=""):
        ipool = INT_POOL[:D + 1] if D else ()
        idest_regs = INT_POOL[:D]
        if zero:
            ipool = ipool + (ZERO,)
            idest_regs = idest_regs + (ZERO,) * zero  # zero may be a destination `zero` times (verifier allows it)
        fpool = FLT_POOL[:F + 1] if F else ()
        n = 0
        seen_idsts = set()
        for idsts in ordered_subsets(idest_regs, allow_empty=(D == 0)):
            if idsts in seen_idsts:
                continue  # (two zero destinations give the same tuple twice)
            seen_idsts.add(idsts)
            for fdsts in ordered_subsets(FLT_POOL[:F], allow_empty=(F == 0)):
                # in mixed families both classes are present; one-class graphs belong to the one-class families
                for first in (ipool if idsts else fpool):
                    tasks.append({"idsts": idsts, "fdsts": fdsts, "ipool": ipool, "fpool": fpool, "first": first,
                                  "free_max": free_max, "free_ordered": free_ordered, "int_widths": int_widths,
                                  "all_orders": all_orders, "per_operand": per_operand, "seed": seed})
                    n += 1
        fam.append({"family": label, "int_dest_regs": D, "float_dest_regs": F, "pool": f"{D}+1 int / {F}+1 float" if F else f"{D}+1 int",
                    "zero_register": zero, "ssa_modes": "shared + per-operand" if per_operand else "shared only", "free_list_max": free_max, "free_lists_ordered": free_ordered,
                    "int_widths": list(int_widths), "float_widths": "all of {32,64}^k" if F else None,
                    "int/float interleavings": ("all" if all_orders else "int-first, float-first") if F and D else None,
                    "shards": n})

    if q:
        add(4, 0, 1, False, (32,), False, label="int-only D=4")
        add(3, 0, 2, True, (32, 64), False, label="int-only D=3, both widths, ordered free lists <=2")
        add(2, 0, 1, False, (32,), False, zero=2, label="int-only D=2 + zero register (<=2 zero destinations)")
        add(0, 2, 2, True, (32,), False, label="float-only F=2, ordered free lists <=2")
        add(0, 3, 1, False, (32,), False, label="float-only F=3")
        add(2, 2, 1, False, (32,), False, label="mixed D=2 F=2")
        add(3, 1, 1, False, (32,), False, label="mixed D=3 F=1")
    else:
        add(5, 0, 1, False, (32,), False, per_operand=False, label="int-only D=5, shared SSA values only")
        add(4, 0, 2, True, (32, 64), False, label="int-only D=4, both widths, ordered free lists <=2")
        add(3, 0, 1, False, (32,), False, zero=1, label="int-only D=3 + zero register")
        add(2, 0, 2, True, (32,), False, zero=2, label="int-only D=2 + zero register (<=2 zero destinations), ordered free lists <=2")
        add(0, 3, 2, True, (32,), False, label="float-only F=3, ordered free lists <=2")
        add(3, 2, 1, False, (32,), False, label="mixed D=3 F=2")
        add(2, 2, 2, True, (32,), True, label="mixed D=2 F=2, all interleavings, ordered free lists <=2")
    return tasks, fam


def run(ctx):
    _selftest()
    tasks, fam = make_tasks(ctx)
    # big shards first so the pool drains evenly
    tasks.sort(key=lambda t: -(len(t["idsts"]) * 10 + len(t["fdsts"]) * 7))
    tasks = list(tasks)
    best: dict[str, dict] = {}
    all9 = tuple((f, x) for f in (None, 32, 64) for x in (None, 32, 64))
    if ctx.quick:
        hplan = {1: all9, 2: all9, 3: ((None, None), (32, None), (64, None), (None, 64))}
    else:
        hplan = {1: all9, 2: all9, 3: all9, 4: ((None, None),)}
    htasks = [("helper", (e, n, k0, hargs, ctx.seed)) for e in HELPERS for n, hargs in hplan.items() for k0 in KINDS]
    tasks = tasks + htasks
    fam.append({"family": "helper entry points " + ", ".join(HELPERS),
                "values": "every sequence of n value kinds out of " + "/".join(KINDS),
                "sources": "every injective choice from {destination a-/fa-registers of the class, one outside register t2/ft2}",
                "(flen, xlen) argument combos per n (None = default)": {str(n): [list(a) for a in v] for n, v in hplan.items()},
                "destinations": "a<k>/fa<k> (given explicitly to move_to_regs; assigned by the harness as 'register allocator' "
                                "to the unallocated outputs of move_to_unallocated_regs)", "shards": len(htasks)})
    for _, st in pmap(_dispatch, tasks):
        for sig, v in st.violations.items():
            if sig not in best or _wkey(v["witness"]) < _wkey(best[sig]["witness"]):
                best[sig] = v
        ctx.merge(st)
    for sig, v in best.items():  # smallest witness per signature, independent of worker scheduling
        ctx.stats.violations[sig]["witness"] = v["witness"]
        ctx.stats.violations[sig]["what"] = v["what"]
    ctx.bounds = {"families": fam,
                  "ssa_modes": "one SSA value per source register; plus one SSA value per operand whenever a source "
                               "register is used more than once",
                  "free_candidates": "pool registers unused by the graph + outside registers t0(,t1)/ft0(,ft1); float "
                                     "candidates only when the graph has float operands"}
    ctx.rule = ("(helper family: every call of move_to_regs / move_to_a_regs / move_to_unallocated_regs within the bounds, "
                "lowered and executed the same way, judged at the width the value type prescribes) + "
                "every riscv.parallel_mov whose destinations are an ordered non-empty subset of the destination registers "
                "and whose sources are any registers of the pool, times every free_registers list, width assignment and "
                "SSA mode within the bounds; one state = one (graph, free list, widths, SSA mode); transitions = moves "
                "placed; executions = runs of RISCVLowerParallelMovPass whose output was executed on the symbolic register "
                "machine; non-trivial = the graph has at least one move whose source differs from its destination")
    ctx.assumptions = ["symbolic register machine in props/c20.py (mv/fmv.d copy, fmv.s keeps the low 32 bits, xor = "
                       "symmetric difference, zero is constant) models the emitted RISC-V ops",
                       "a value of SSA register type !riscv.reg<r> lives in register r (what the assembly printer does)",
                       "raising a DiagnosticException subclass counts as 'the pass reports failure'",
                       "helper family: a value is moved at the bit width of its value type, or at the register width (flen "
                       "default 64, xlen default 32, or the explicit argument) when the type has none; destinations follow the "
                       "a<k>/fa<k> convention; the harness plays register allocator for move_to_unallocated_regs",
                       "well-formed input: operands that share one SSA value are declared with one width (mixed widths on one "
                       "register are exercised with one SSA value per operand)"]


def replay(rep) -> bool:
    w = rep["witness"]
    st = Stats()
    _selftest()
    if "helper" in w:
        h = w["helper"]
        check_helper_case(st, h["entry"], tuple(h["kinds"]), tuple(m[0] for m in w["moves"]), h["flen"], h["xlen"])
    else:
        check_graph(st, [tuple(x) for x in w["moves"]], None if w["free"] is None else tuple(w["free"]))
    return rep["signature"] not in st.violations
