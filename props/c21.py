"""C21 -- x86 backend code computes the source results and honours the SysV ABI.

Bounded-exhaustive: every `func.func` of a stated small shape is compiled with the documented
pipeline (real pass classes, one pass at a time, module verified after each pass exactly as
xdsl-opt does), printed with the `x86-asm` target, assembled by the system gcc into a shared
object together with a hand-written trampoline, and called natively on EVERY argument vector of
a boundary set.  The trampoline loads rbx, rbp, r12-r15 with distinct poison values (addresses
of a recovery sled, so that a `ret` through a stale pushed register still comes back), records
rsp, loads rdi/rsi/rdx (integers) and xmm0-2 (floats) per the SysV ABI, calls the function and
snapshots rax, xmm0, the callee-saved registers and rsp.

Oracle: `mc.refsem.run_func` on the SOURCE module (independent reference semantics);
callee-saved registers and rsp must come back unchanged; gcc must accept the emitted text.

Anything the pipeline rejects with a diagnostic (DiagnosticException family, NotImplementedError,
ValueError) or refuses to print because source-dialect ops were left unlowered is an OUTCOME
("reported-failure:..."), never a violation.
"""
from __future__ import annotations

import ctypes
import itertools
import os
import re
import shutil
import subprocess
import tempfile

from mc.pool import HarnessError, kmap, run_batches_bisect
from mc.stats import Stats

PIPELINE = ("convert-func-to-x86-func,convert-arith-to-x86,reconcile-unrealized-casts,canonicalize,dce,"
            "x86-allocate-registers,canonicalize,x86-prologue-epilogue-insertion")
EMIT = "x86-asm"

M64 = (1 << 64) - 1
# argument boundary values (64-bit patterns)
ARGS_FULL = (0, 1, M64, 2, 2**31 - 1, 2**31, 2**32 - 1, 2**63 - 1, 2**63)
ARGS_REDUCED = (0, 2, M64, 2**31, 2**63 - 1)          # used for 3-argument functions
# f64 / f32 argument bit patterns: 0.0, 1.0, -1.0, 2.0, 1.5
F64_ARGS = (0x0, 0x3FF0000000000000, 0xBFF0000000000000, 0x4000000000000000, 0x3FF8000000000000)
F32_ARGS = (0x0, 0x3F800000, 0xBF800000, 0x40000000, 0x3FC00000)
# constants at the imm32 edges (0, 1, -1, 2^31-1, -2^31 fit a sign-extended imm32; 2^31 and 2^32-1 do not)
CONSTS_MAIN = (0, 1, -1, 2**31 - 1, -2**31)
CONSTS_WIDE = (2**31, 2**32 - 1, -2**31 - 1, 2**63 - 1)
GPR_JUNK = 0x5151515151515151        # what unused argument / scratch registers hold
CALLEE_SAVED = ("rbx", "rbp", "r12", "r13", "r14", "r15")
INTERNAL_ERRORS = (AttributeError, KeyError, IndexError, TypeError, AssertionError)

TRAMPOLINE = r"""
.intel_syntax noprefix
.text
.globl c21_call_checked
.globl c21_sled_pub
.type c21_call_checked, @function
# void c21_call_checked(void *fn /*rdi*/, uint64_t in[13] /*rsi*/, uint64_t out[12] /*rdx*/)
#   in[0..5] = rdi, rsi, rdx, rcx, r8, r9;  in[6..8] = xmm0..2;  in[9..12] = the four words at [rsp+8..] on entry of fn
#   (7th, 8th, 9th parameter + one more word; the caller stores the sled address there when they are not parameters)
c21_call_checked:
    push rbx
    push rbp
    push r12
    push r13
    push r14
    push r15
    push rdx
    lea r11, [rip + c21_sled + 7]
    push r11
    push r11
    push r11
    push r11
    push r11
    push r11
    push r11
    push r11
    push QWORD PTR [rsi + 96]
    push QWORD PTR [rsi + 88]
    push QWORD PTR [rsi + 80]
    push QWORD PTR [rsi + 72]
    mov [rip + c21_saved_rsp], rsp
    mov rax, rdi
    movq xmm0, QWORD PTR [rsi + 48]
    movq xmm1, QWORD PTR [rsi + 56]
    movq xmm2, QWORD PTR [rsi + 64]
    mov rdi, [rsi]
    mov rdx, [rsi + 16]
    mov rcx, [rsi + 24]
    mov r8, [rsi + 32]
    mov r9, [rsi + 40]
    mov rsi, [rsi + 8]
    lea rbx, [rip + c21_sled]
    lea rbp, [rip + c21_sled + 1]
    lea r12, [rip + c21_sled + 2]
    lea r13, [rip + c21_sled + 3]
    lea r14, [rip + c21_sled + 4]
    lea r15, [rip + c21_sled + 5]
    movabs r10, 0x5151515151515151
    mov r11, r10
    call rax
    mov rcx, rsp
    jmp c21_collect
c21_sled_pub:
c21_sled:
    nop
    nop
    nop
    nop
    nop
    nop
    nop
    nop
    mov rcx, rsp
c21_collect:
    mov rsp, [rip + c21_saved_rsp]
    mov rdx, [rsp + 96]
    mov [rdx], rax
    mov [rdx + 8], rbx
    mov [rdx + 16], rbp
    mov [rdx + 24], r12
    mov [rdx + 32], r13
    mov [rdx + 40], r14
    mov [rdx + 48], r15
    mov [rdx + 56], rcx
    mov [rdx + 64], rsp
    lea r11, [rip + c21_sled]
    mov [rdx + 72], r11
    movq QWORD PTR [rdx + 80], xmm0
    add rsp, 104
    pop r15
    pop r14
    pop r13
    pop r12
    pop rbp
    pop rbx
    ret
.size c21_call_checked, .-c21_call_checked
.section .bss
.align 8
c21_saved_rsp:
    .zero 8
.section .note.GNU-stack,"",@progbits
"""


# ======================================================================================
# program space
# ======================================================================================
# A program spec is (family, ty, k, ops, ret): k arguments %a0.. of type ty; ops is a tuple of
#   ("c", literal)                 arith.constant literal : ty
#   ("b", opname, x, y)            arith.<opname> %x, %y : ty
#   ("cmpi", pred, x, y)           arith.cmpi pred, %x, %y : ty      (result i1)
#   ("select", c, x, y)            arith.select %c, %x, %y : ty
# value ids: 0..k-1 arguments, k+i result of op i; `ret` is the returned value id.

def res_ty(ty) -> str:
    return ty if isinstance(ty, str) else ty[0]


def param_tys(ty, k: int):
    return (ty,) * k if isinstance(ty, str) else tuple(ty[1])


def _vname(k: int, v: int) -> str:
    return f"%a{v}" if v < k else f"%v{v - k}"


def render(spec, name: str) -> str:
    _family, fty, k, ops, ret = spec
    ty = res_ty(fty)
    lines = [f"func.func @{name}(" + ", ".join(f"%a{i}: {t}" for i, t in enumerate(param_tys(fty, k))) + f") -> {ty} {{"]
    for i, op in enumerate(ops):
        r = f"%v{i}"
        if op[0] == "c":
            lines.append(f"  {r} = arith.constant {op[1]} : {ty}")
        elif op[0] == "b":
            lines.append(f"  {r} = arith.{op[1]} {_vname(k, op[2])}, {_vname(k, op[3])} : {ty}")
        elif op[0] == "cmpi":
            lines.append(f"  {r} = arith.cmpi {op[1]}, {_vname(k, op[2])}, {_vname(k, op[3])} : {ty}")
        elif op[0] == "select":
            lines.append(f"  {r} = arith.select {_vname(k, op[1])}, {_vname(k, op[2])}, {_vname(k, op[3])} : {ty}")
        else:  # pragma: no cover
            raise HarnessError(f"bad op {op!r}")
    lines.append(f"  func.return {_vname(k, ret)} : {ty}")
    lines.append("}")
    return "\n".join(lines) + "\n"


def op_key(spec) -> str:
    """the op (or op set) a wrong result is attributed to -- stable, no data"""
    _family, fty, k, ops, _ret = spec
    ty = res_ty(fty)
    names = sorted({("constant" if o[0] == "c" else o[1] if o[0] == "b" else o[0]) for o in ops}) or ["return"]
    key = "+".join(names)
    if k > 6:
        key = "stackarg+" + key
    return key if ty == "i64" else f"{key}.{ty}"


def gen_wirings(k: int, n: int, consts, binops, dead: bool):
    """all op sequences of length n; with dead=False every op result is used later or returned (last op returned);
    with dead=True ONLY the sequences that contain at least one dead op"""
    def rec(ops):
        i = len(ops)
        if i == n:
            used = set()
            for o in ops:
                if o[0] == "b":
                    used.update(o[2:])
            alive = all((k + j) in used for j in range(n - 1))
            if alive != dead:
                yield tuple(ops)
            return
        for c in consts:
            yield from rec(ops + [("c", c)])
        nv = k + i
        for b in binops:
            for x in range(nv):
                for y in range(nv):
                    yield from rec(ops + [("b", b, x, y)])
    yield from rec([])


def gen_many_live(k: int, live: int, kind: str, order: str):
    """`live` values defined first (all simultaneously live), then summed by a chain"""
    ops = []
    ids = []
    for i in range(live):
        if kind == "const":
            ops.append(("c", i + 2))
        elif kind == "prod":
            ops.append(("b", "muli", i % k, (i + 1) % k))
        else:  # "argsum": a + a, keeps arguments live too
            ops.append(("b", "addi", i % k, (i * 2 + 1) % k))
        ids.append(k + i)
    seq = ids if order[0] == "f" else ids[::-1]
    acc = seq[0]
    for v in seq[1:]:
        ops.append(("b", "addi", acc, v) if order[1] == "l" else ("b", "addi", v, acc))
        acc = k + len(ops) - 1
    if kind != "const":  # add the arguments at the very end so they stay live across everything
        for a in range(k):
            ops.append(("b", "addi", acc, a))
            acc = k + len(ops) - 1
    return ("many-live", "i64", k, tuple(ops), acc)


STACK_TYPES = ("i64", "i32", "i16", "index")


def gen_stack_family(max_live_regs: int):
    """functions with 7, 8, 9 parameters (the 7th.. are stack-carried).  The six register parameters have the result
    type T; the stack-carried ones take every combination of STACK_TYPES; every subset of the stack-carried parameters
    of type T is used (r = 2*r + u chain, so the order is visible); L register parameters are added at the very end,
    which keeps them live across the whole body (register pressure -> 0, 1, >= 2 callee-saved registers)."""
    out = []
    for nparams in (7, 8, 9):
        s = nparams - 6
        for T in STACK_TYPES:
            for stys in itertools.product(STACK_TYPES, repeat=s):
                cand = [6 + i for i in range(s) if stys[i] == T]
                subsets = [u for r in range(1, len(cand) + 1) for u in itertools.combinations(cand, r)]
                if all(t == T for t in stys):
                    subsets.append(())       # stack-carried parameters declared but unused
                for used in subsets:
                    for live in range(0, max_live_regs + 1):
                        if not used and live == 0:
                            continue
                        seq = list(used) + list(range(live))
                        ops = []
                        acc = seq[0]
                        for v in seq[1:]:
                            if v >= 6 or not used:      # positional chain: r = (r + r) + v
                                ops.append(("b", "addi", acc, acc))
                                acc = nparams + len(ops) - 1
                            ops.append(("b", "addi", acc, v))
                            acc = nparams + len(ops) - 1
                        out.append(("stack", (T, (T,) * 6 + tuple(stys)), nparams, tuple(ops), acc))
    return out


UNSUPPORTED_BINOPS = ("subi", "andi", "ori", "xori", "shli", "shrsi", "shrui", "divsi", "divui", "remsi", "remui",
                      "maxsi", "minsi", "maxui", "minui")


def programs(quick: bool):
    out = []
    # --- main family: i64, constants at the imm32 edges, add/mul, all wirings, no dead op
    shapes = [(1, 3), (2, 3), (3, 3)] if quick else [(1, 4), (2, 4), (3, 3)]
    for k, nmax in shapes:
        for j in range(k):
            out.append(("main", "i64", k, (), j))
        for n in range(1, nmax + 1):
            consts = CONSTS_MAIN if n <= 3 else (-1, 2**31 - 1, -2**31)
            for ops in gen_wirings(k, n, consts, ("addi", "muli"), dead=False):
                out.append(("main", "i64", k, ops, k + n - 1))
    if not quick:
        # 3 arguments, 4 ops: no constants, every argument used
        for ops in gen_wirings(3, 4, (), ("addi", "muli"), dead=False):
            if {0, 1, 2} <= {v for o in ops for v in o[2:]}:
                out.append(("main", "i64", 3, ops, 3 + 3))
    # --- dead ops (exercise dce): every sequence with >= 1 dead op
    for k, n in ([(1, 2), (2, 2)] if quick else [(1, 2), (2, 2), (3, 2), (1, 3), (2, 3)]):
        for ops in gen_wirings(k, n, (0, -1, 2**31 - 1), ("addi", "muli"), dead=True):
            out.append(("dead", "i64", k, ops, k + n - 1))
    # --- constants outside the sign-extended imm32 range
    for c in CONSTS_WIDE:
        out.append(("wide-const", "i64", 1, (("c", c),), 1))
        out.append(("wide-const", "i64", 1, (("c", c), ("b", "addi", 0, 1)), 2))
        out.append(("wide-const", "i64", 1, (("c", c), ("b", "muli", 1, 0)), 2))
    # --- many simultaneously live values
    for k in (1, 2, 3):
        for live in range(2, 15 if quick else 17):
            for kind in ("const", "prod", "argsum"):
                for order in ("fl", "fr", "rl", "rr"):
                    out.append(gen_many_live(k, live, kind, order))
    # --- arith ops convert-arith-to-x86 does not lower (expected: reported failure)
    for b in UNSUPPORTED_BINOPS:
        out.append(("unsupported", "i64", 2, (("b", b, 0, 1),), 2))
        out.append(("unsupported", "i64", 2, (("b", b, 1, 0), ("b", "addi", 2, 0)), 3))
    for pred in ("eq", "slt", "ult"):
        out.append(("unsupported", "i64", 2, (("cmpi", pred, 0, 1), ("select", 2, 0, 1)), 3))
    # --- other scalar types the func lowering accepts
    for ty in ("i32", "i16", "i8", "index"):
        for k in (1, 2):
            for j in range(k):
                out.append(("narrow", ty, k, (), j))
            for n in (1, 2):
                for ops in gen_wirings(k, n, (1, -1), ("addi", "muli"), dead=False):
                    out.append(("narrow", ty, k, ops, k + n - 1))
    for ty in ("f64", "f32"):
        for k in (1, 2, 3):
            for j in range(k):
                out.append(("float", ty, k, (), j))
        out.append(("float", ty, 1, (("c", "1.5"),), 1))
        for k in (1, 2):
            for n in (1, 2):
                for ops in gen_wirings(k, n, (), ("addf", "mulf"), dead=False):
                    out.append(("float", ty, k, ops, k + n - 1))
    # --- 7..9 parameters: stack-carried parameters x register pressure
    out.extend(gen_stack_family(4 if quick else 6))
    seen = set()
    uniq = []
    for p in out:  # distinct programs only (a few many-live shapes coincide)
        key = p[1:]
        if key not in seen:
            seen.add(key)
            uniq.append(p)
    return uniq


def stack_family_vectors(k: int):
    """distinct recognisable values per argument (distinct already in the low 16 bits), so a wrong slot is visible"""
    v1 = tuple((((0xC0DE00 + i) << 40) | (((i + 3) * 0x0B0D0B0D) & 0xFFFFFFFF)) for i in range(k))
    v2 = tuple(M64 - 3 * i for i in range(k))
    v3 = tuple((2**31 + i) if i % 2 == 0 else (2**63 - 1 - i) for i in range(k))
    v4 = tuple(1 << (7 * i) for i in range(k))
    return [v1, v2, v3, v4]


def arg_vectors(ty, k: int):
    if k > 6:
        return stack_family_vectors(k)
    if ty == "f64":
        base = F64_ARGS
    elif ty == "f32":
        base = F32_ARGS
    else:
        base = ARGS_FULL if k <= 2 else ARGS_REDUCED
    return list(itertools.product(base, repeat=k))


def type_width(ty: str) -> int:
    return {"i64": 64, "index": 64, "f64": 64, "i32": 32, "f32": 32, "i16": 16, "i8": 8}[ty]


# ======================================================================================
# compilation (real xDSL classes)
# ======================================================================================
_X = None


def X():
    global _X
    if _X is None:
        from xdsl.context import Context
        from xdsl.dialects import get_all_dialects
        from xdsl.parser import Parser
        from xdsl.passes import PassPipeline
        from xdsl.targets import get_all_targets
        from xdsl.transforms import get_all_passes
        from xdsl.utils.exceptions import DiagnosticException

        ctx = Context()
        dialects = get_all_dialects()
        for n in ("builtin", "func", "arith", "asm", "x86", "x86_func"):
            ctx.load_dialect(dialects[n]())
        pipe = PassPipeline.parse_spec(get_all_passes(), PIPELINE)
        target = get_all_targets()[EMIT]()()
        _X = {"ctx": ctx, "Parser": Parser, "passes": pipe.passes, "target": target, "Diag": DiagnosticException}
    return _X


def _exc_name(e: BaseException) -> str:
    return type(e).__name__


def compile_one(text: str):
    """-> (status, detail, source_module, asm_text).  status in
    'ok' | 'reported' (detail = label) | 'internal' (detail = (stage, ExcName, message))"""
    import io

    x = X()
    src = x["Parser"](x["ctx"], text).parse_module()
    src.verify()
    m = src.clone()
    npasses = 0
    for p in x["passes"]:
        try:
            npasses += 1
            p.apply(x["ctx"], m)
            m.verify()
        except INTERNAL_ERRORS as e:
            return "internal", (p.name, _exc_name(e), str(e).splitlines()[0][:160] if str(e) else ""), src, None, npasses
        except (x["Diag"], NotImplementedError, ValueError) as e:
            return "reported", f"{p.name}:{_exc_name(e)}", src, None, npasses
    leftover = sorted({op.name for op in m.walk()
                       if not (op.name.startswith("x86.") or op.name.startswith("x86_func.") or op.name == "builtin.module")})
    out = io.StringIO()
    try:
        x["target"].emit(x["ctx"], m, out)
    except Exception as e:  # noqa: BLE001
        if leftover:
            # the printer refuses a module that still holds source-dialect ops: a (crude) rejection
            return "reported", f"{EMIT}:unlowered-op-left:{_exc_name(e)}", src, None, npasses
        if isinstance(e, INTERNAL_ERRORS):
            return "internal", (EMIT, _exc_name(e), str(e).splitlines()[0][:160] if str(e) else ""), src, None, npasses
        if isinstance(e, (x["Diag"], NotImplementedError, ValueError)):
            return "reported", f"{EMIT}:{_exc_name(e)}", src, None, npasses
        raise
    return "ok", None, src, out.getvalue(), npasses


# ======================================================================================
# assembling + native execution
# ======================================================================================
_ERR_RE = re.compile(r"^(.*?):(\d+): Error: (.*)$")


def assemble(workdir: str, tag: str, funcs: list):
    """funcs: list of (name, asm_text).  -> (so_path | None, rejected {name: (line_text, message)})"""
    rejected = {}
    live = list(funcs)
    while True:
        lines = TRAMPOLINE.strip("\n").split("\n")
        lines.append(".text")
        owner = {}
        for name, asm in live:
            lines.append(f".globl {name}")
            lines.append(f".type {name}, @function")
            for ln in asm.rstrip("\n").split("\n"):
                lines.append(ln)
                owner[len(lines)] = name
        lines.append('.section .note.GNU-stack,"",@progbits')
        s_path = os.path.join(workdir, f"{tag}.s")
        so_path = os.path.join(workdir, f"{tag}.so")
        with open(s_path, "w") as f:
            f.write("\n".join(lines) + "\n")
        r = subprocess.run(["gcc", "-shared", "-nostdlib", "-o", so_path, s_path], capture_output=True, text=True)
        if r.returncode == 0:
            return so_path, rejected
        bad = {}
        for el in r.stderr.splitlines():
            mm = _ERR_RE.match(el)
            if mm:
                ln = int(mm.group(2))
                nm = owner.get(ln)
                if nm is None:
                    raise HarnessError(f"gcc rejects harness text: {el}")
                bad.setdefault(nm, (lines[ln - 1].strip(), mm.group(3)[:160]))
        if not bad:
            raise HarnessError(f"gcc failed without a located error: {r.stderr[-800:]}")
        rejected.update(bad)
        live = [(n, a) for n, a in live if n not in bad]
        if not live:
            return None, rejected


class Native:
    def __init__(self, so_path: str):
        self.lib = ctypes.CDLL(so_path)
        self.tramp = self.lib.c21_call_checked
        self.tramp.argtypes = [ctypes.c_void_p, ctypes.c_void_p, ctypes.c_void_p]
        self.tramp.restype = None
        self.inb = (ctypes.c_uint64 * 13)()
        self.sled = ctypes.cast(self.lib.c21_sled_pub, ctypes.c_void_p).value
        self.outb = (ctypes.c_uint64 * 12)()
        self.pin = ctypes.addressof(self.inb)
        self.pout = ctypes.addressof(self.outb)

    def addr(self, name: str) -> int:
        return ctypes.cast(getattr(self.lib, name), ctypes.c_void_p).value

    def call(self, addr: int, gpr: tuple, xmm: tuple, stack: tuple = ()):
        """gpr: up to 6 register arguments, xmm: 3, stack: up to 3 stack-carried arguments"""
        b = self.inb
        for i in range(6):
            b[i] = gpr[i] if i < len(gpr) else GPR_JUNK
        b[6], b[7], b[8] = xmm
        for i in range(4):  # words that are not parameters point into the recovery sled (over-pop guard)
            b[9 + i] = stack[i] if i < len(stack) else self.sled + 7
        self.tramp(addr, self.pin, self.pout)
        return self.outb[:]

    def close(self):
        import _ctypes
        h = self.lib._handle
        del self.tramp
        del self.lib
        try:
            _ctypes.dlclose(h)
        except Exception:  # noqa: BLE001
            pass


def viol(st: Stats, sig: str, what: str, wit: dict, spec, idx: int) -> None:
    """st.violate, but the witness kept for a signature is the SMALLEST program (fewest ops, fewest args, lowest index)"""
    rank = [len(spec[3]), spec[2], idx]
    old = st.violations.get(sig)
    st.violate(sig, what, {**wit, "rank": rank})
    if old is not None and rank < old["witness"].get("rank", rank):
        old["what"] = what
        old["witness"] = {**wit, "rank": rank}


def pad3(vals, fill):
    return tuple(vals) + (fill,) * (3 - len(vals))


def check_native(st: Stats, nat: Native, spec, name: str, text: str, src, asm: str, idx: int = 0, only_args=None) -> str:
    """run one compiled function on every argument vector; returns an outcome label"""
    from mc import refsem as R

    family, fty, k, ops, _ret = spec
    ty = res_ty(fty)
    is_float = ty in ("f64", "f32")
    has_push = any(ln.strip().startswith("push") for ln in asm.split("\n"))
    w = type_width(ty)
    wmask = (1 << w) - 1
    addr = nat.addr(name)
    status = "ok"
    tsuf = "" if ty == "i64" else f".{ty}"
    vectors = arg_vectors(fty, k) if only_args is None else [tuple(only_args)]
    for vec in vectors:
        ref, _log = R.run_func(src, list(vec), name=name)
        if ref is R.POISON:
            st.bump("excluded_poison_or_ub")
            continue
        (rts, rbits), = ref
        if is_float:
            out = nat.call(addr, (GPR_JUNK,) * 3, pad3(vec, GPR_JUNK))
            got = out[10] & wmask
        else:
            out = nat.call(addr, vec[:6], (GPR_JUNK,) * 3, vec[6:])
            got = out[0] & wmask
        st.executions += 1
        st.evaluations += 8
        wit = {"text": text, "func": name, "args": [hex(a) for a in vec], "asm": asm, "spec": _spec_json(spec)}
        if not R.values_equal(rts, got, rbits):
            status = "wrong-result"
            okey = op_key(spec)
            if k > 6 and has_push:  # stack-carried parameters read after the prologue moved rsp
                okey = okey.replace("stackarg+", "stackarg-after-push+", 1)
            # a value read from a wrong stack slot may be a return address: keep the witness independent of ASLR
            shown = "a value read from a wrong stack slot" if (k > 6 and has_push) else hex(got)
            viol(st, f"C21|pipeline|{okey}|wrong-result",
                 f"compiled {ty} function returns {shown} in {'xmm0' if is_float else 'rax'}, the source computes {hex(rbits)}",
                 {**wit, "expected": hex(rbits), "got": shown}, spec, idx)
        sled = out[9]
        for i, reg in enumerate(CALLEE_SAVED):
            if out[1 + i] != sled + i:
                status = "abi-violation" if status == "ok" else status
                after = out[1 + i]
                viol(st, f"C21|abi|callee-saved-clobbered|{reg}{tsuf}",
                     f"{reg} is not restored by the compiled function",
                     {**wit, "reg": reg, "before": f"poison#{i}",
                      "after": (f"poison#{after - sled}" if 0 <= after - sled < 8 else
                                # partial-register write: keep the witness independent of ASLR
                                f"poison#{i} with the low {8 if (after ^ (sled + i)) < 2**8 else 16} bits overwritten" if (after ^ (sled + i)) < 2**16 else
                                hex(after) if after < 2**32 else "other")}, spec, idx)
        if out[7] != out[8]:
            status = "abi-violation" if status == "ok" else status
            viol(st, f"C21|abi|rsp-not-restored{tsuf}", "rsp after the call differs from rsp before the call",
                 {**wit, "rsp_delta": int(out[7]) - int(out[8])}, spec, idx)
    return status


def _spec_json(spec):
    family, ty, k, ops, ret = spec
    return [family, ty if isinstance(ty, str) else [ty[0], list(ty[1])], k, [list(o) for o in ops], ret]


def _spec_unjson(j):
    family, ty, k, ops, ret = j
    if not isinstance(ty, str):
        ty = (ty[0], tuple(ty[1]))
    return (family, ty, k, tuple(tuple(o) for o in ops), ret)


# ======================================================================================
# worker
# ======================================================================================
def _batch(task) -> tuple:
    (bno, root, seed), items = task
    st = Stats()
    workdir = tempfile.mkdtemp(prefix=f"b{bno}-", dir=root)
    try:
        compiled = []
        for idx, spec in items:
            name = f"c21f_{idx}"
            text = render(spec, name)
            st.states += 1
            status, detail, src, asm, npasses = compile_one(text)
            st.transitions += npasses
            fam = spec[0]
            if (idx + seed) % 997 == 0:
                st.sample({"family": fam, "text": text, "status": status, "asm": asm})
            if status == "reported":
                st.outcomes[f"{fam}: reported-failure:{detail}"] += 1
                continue
            if status == "internal":
                stage, exc, msg = detail
                st.outcomes[f"{fam}: raises-internal:{stage}:{exc}"] += 1
                viol(st, f"C21|pipeline|raises-internal|{stage}|{exc}",
                     f"{stage} raises {exc} ({msg}) instead of a diagnostic",
                     {"text": text, "func": name, "spec": _spec_json(spec)}, spec, idx)
                continue
            compiled.append((idx, spec, name, text, src, asm))
        if compiled:
            so, rejected = assemble(workdir, f"batch{bno}_{items[0][0]}", [(c[2], c[5]) for c in compiled])
            nat = Native(so) if so else None
            try:
                for idx, spec, name, text, src, asm in compiled:
                    fam = spec[0]
                    if name in rejected:
                        line, msg = rejected[name]
                        mnem = (line.split() or ["?"])[0]
                        st.outcomes[f"{fam}: assembler-rejects:{mnem}"] += 1
                        st.evaluations += 1
                        viol(st, f"C21|asm|assembler-rejects|{mnem}",
                             f"gcc rejects the emitted line `{line}`: {msg}",
                             {"text": text, "func": name, "asm": asm, "line": line, "gcc": msg, "spec": _spec_json(spec)},
                             spec, idx)
                        continue
                    status = check_native(st, nat, spec, name, text, src, asm, idx)
                    pushes = sum(1 for ln in asm.split("\n") if ln.strip().startswith("push"))
                    st.outcomes[f"{fam}: ran:{status} pushes={pushes}"] += 1
                    if any(o[0] in ("b", "select") for o in spec[3]):
                        st.nontrivial += 1
            finally:
                if nat is not None:
                    nat.close()
    finally:
        shutil.rmtree(workdir, ignore_errors=True)
    return (bno, items[0][0], st)


def need_gcc() -> None:
    if shutil.which("gcc") is None:
        raise HarnessError("gcc not found: C21 cannot assemble the emitted code")
    r = subprocess.run(["gcc", "-dumpmachine"], capture_output=True, text=True)
    if r.returncode != 0 or not r.stdout.startswith("x86_64"):
        raise HarnessError(f"gcc does not target x86_64: {r.stdout!r} {r.stderr[-200:]!r}")


def run(ctx):
    need_gcc()
    X()  # import xDSL and build the pipeline once, before the workers are forked
    progs = programs(ctx.quick)
    items = list(enumerate(progs))
    nb = max(1, len(items) // 90)
    root = tempfile.mkdtemp(prefix="verif-c21-")
    results = []
    crashed = []
    try:
        batches = [((b, root, ctx.seed), items[b::nb]) for b in range(nb)]

        def on_result(res):
            results.append(res)

        def on_item(task, status):
            (bno, _root, _seed), (idx, spec) = task
            crashed.append((idx, spec, status))

        run_batches_bisect(_batch, batches, on_result, on_item, kill_s=ctx.pick(240.0, 900.0), per_item_s=0.5,
                           min_kill_s=60.0)
    finally:
        shutil.rmtree(root, ignore_errors=True)
    best = {}
    for _bno, _first, st in sorted(results, key=lambda r: (r[0], r[1])):
        ctx.merge(st)
        for sig, v in st.violations.items():
            rank = v["witness"].get("rank", [])
            if sig not in best or rank < best[sig][0]:
                best[sig] = (rank, v)
    for sig, (_rank, v) in best.items():  # keep the smallest witness of every signature, independent of batch order
        ctx.stats.violations[sig]["what"] = v["what"]
        ctx.stats.violations[sig]["witness"] = v["witness"]
    st = Stats()
    for idx, spec, status in sorted(crashed):
        name = f"c21f_{idx}"
        st.states += 1
        if status == "crash":
            st.outcomes[f"{spec[0]}: native-crash"] += 1
            st.violate(f"C21|native|crash|{spec[0]}", "the compiled function kills the process (SIGSEGV/SIGILL) on a defined input",
                       {"text": render(spec, name), "func": name, "spec": _spec_json(spec)})
        else:
            st.outcomes[f"{spec[0]}: native-timeout"] += 1
            st.cap(f"program {name} did not finish within the kill time ({status})")
    ctx.merge(st)
    ctx.bounds = {
        "tier": ctx.tier,
        "programs": len(progs),
        "by_family": {f: sum(1 for p in progs if p[0] == f) for f in sorted({p[0] for p in progs})},
        "main": ("i64, 1-3 args, <=3 ops over {constant in %s, addi, muli}, every wiring (argument reuse, x op x), no dead op"
                 % (list(CONSTS_MAIN),)) if ctx.quick else
                ("i64: 1-2 args <=4 ops (constants {-1, 2^31-1, -2^31} at 4 ops), 3 args <=3 ops + 3 args 4 ops without "
                 "constants and every argument used; {constant, addi, muli}, every wiring, no dead op"),
        "stack": "7, 8, 9 parameters; six register parameters of the result type T in {i64,i32,i16,index}, stack-carried ones "
                 "over every combination of those types; every subset of the T-typed stack-carried parameters used "
                 "(r = 2r + u chain) plus 0..%d register parameters kept live to the end; 4 argument vectors with distinct "
                 "recognisable values per parameter" % (4 if ctx.quick else 6),
        "many_live": "2..%d simultaneously live constants/products/sums, 1-3 args, 4 summation orders" % (14 if ctx.quick else 16),
        "inputs": {"1-2 args": [hex(a) for a in ARGS_FULL], "3 args": [hex(a) for a in ARGS_REDUCED],
                   "f64": [hex(a) for a in F64_ARGS], "f32": [hex(a) for a in F32_ARGS]},
        "pipeline": PIPELINE + " -t " + EMIT,
    }
    ctx.rule = ("every program of the stated shapes is compiled once with the real pass classes and printed with the x86-asm "
                "target; the text is assembled by gcc (batched) and the function is called natively through a poisoning "
                "trampoline on EVERY vector of the boundary set^k; states = programs, transitions = pass applications, "
                "executions = native calls compared with mc.refsem; non-trivial = program with at least one binary op that "
                "compiled, assembled and ran")
    ctx.assumptions = ["mc/refsem.py implements the MLIR semantics of arith (self test: python -m mc.refsem)",
                       "the host is x86-64 SysV and gcc/as assemble Intel-syntax text faithfully",
                       "a pipeline/printer exception on a program that still holds unlowered source-dialect ops is a rejection, "
                       "as are DiagnosticException subclasses, NotImplementedError and ValueError",
                       "narrow integers: only the low w bits of rax are compared (upper bits are unspecified by the ABI)"]


# ======================================================================================
# replay
# ======================================================================================
def _replay_task(task):
    root, w = task
    st = Stats()
    spec = _spec_unjson(w["spec"])
    name = w["func"]
    text = render(spec, name)
    status, detail, src, asm, _np = compile_one(text)
    if status == "internal":
        st.violate(f"C21|pipeline|raises-internal|{detail[0]}|{detail[1]}", "internal error", {})
        return st
    if status != "ok":
        return st
    workdir = tempfile.mkdtemp(dir=root)
    so, rejected = assemble(workdir, "replay", [(name, asm)])
    if name in rejected:
        line = rejected[name][0]
        st.violate(f"C21|asm|assembler-rejects|{(line.split() or ['?'])[0]}", "assembler rejects", {})
        return st
    nat = Native(so)
    check_native(st, nat, spec, name, text, src, asm)
    return st


def replay(rep) -> bool:
    need_gcc()
    root = tempfile.mkdtemp(prefix="verif-c21-replay-")
    try:
        for _task, status, st in kmap(_replay_task, [(root, rep["witness"])], timeout_s=120.0, procs=1):
            if status != "ok":
                return not rep["signature"].startswith("C21|native|crash")
            return rep["signature"] not in st.violations
    finally:
        shutil.rmtree(root, ignore_errors=True)
    return True
