"""C22 -- RISC-V backend output computes the source results and keeps callee state.

Part 1 (pipeline).  Bounded-exhaustive `func.func` programs over the ops `convert-arith-to-riscv` lowers
are run through the in-repo pipeline (LOWER_SNITCH_STREAM_TO_ASM_PASSES of
xdsl/transforms/test_lower_linalg_to_snitch.py minus the Snitch-only passes, preceded by the func / scf / arith
conversions and followed by prologue/epilogue insertion), the module is printed with the riscv-asm target
printer and THE TEXT is executed by the independent RV32 model `mc.rvmodel` with the RISC-V calling
convention (a0.. / fa0.. arguments, every other register poison-filled, ra = sentinel).  Oracle: a0 / fa0 ==
`mc.refsem` on the SOURCE module (index = 32 bit); s0-s11, fs0-fs11 and sp restored.  Inputs on which the source
is poison / UB are excluded.  A pipeline stage that raises (or whose output does not verify) is the outcome
"reported-failure:<pass>" -- counted, not a violation.
  * generic i32 programs: every wiring of 1 op (operands from {a, b} + 12 boundary constants), of 2 ops
    (quick: one argument + 4 constants, and (a, b) without constants; thorough: two arguments + 8 constants),
    thorough also 3 ops (one argument, 2 constants, 7 representative ops);
  * index programs (index_cast in / out), unsupported ops (expected reported failures), f32 / f64 programs
    (binary ops, negf, sitofp, fptosi, contract-flagged mulf+addf), arith.cmpi / arith.cmpf (whose i1 result
    the func lowering cannot return: the op is wrapped in a riscv_func.func with unrealized casts, the
    reference is the corresponding func.func; only bit 0 of a0 is compared);
  * a fixed scf family (constant / argument bounds, iter_arg accumulation, swapped iter_args, nested loops,
    induction variable arithmetic for the loop range folding pass, scf.if);
  * prologue / epilogue insertion on riscv_func functions that clobber every subset of a pool of callee-saved
    registers, with one or two return blocks: after the pass a0 must equal the value before the pass and the
    callee-saved registers and sp must be restored.
Part 2 (canonicalization alone).  riscv_func snippets: every single RISC-V op that has canonicalization
patterns (plus unpatterned controls) and every dependent pair (li / zero / mv feeding an op, op feeding mv,
immediate-op chains with and without a second use of the inner op, sub/add of addi, sp-relative store / load
through addi, float moves, fmul.d+fadd.d) with constants at the boundary set, in three forms: unallocated,
allocated with one register per value, allocated the way a linear allocator does (result reuses the register
of a dying first operand).  `canonicalize` is applied; before and after are printed to assembly (the
unallocated form after giving every unallocated value its own register -- the harness' assignment, not
xDSL's allocator) and executed from identical register files on all boundary inputs: a0 / fa0 must agree, the
text after must still be executable, and on allocated input no unallocated register may appear.
"""
from __future__ import annotations

import itertools
import struct

from mc import refsem as R
from mc import rvmodel as V
from mc.pool import pmap
from mc.stats import Stats

POISON = R.POISON
M32 = 0xFFFFFFFF
PIPELINE = ("convert-func-to-riscv-func,convert-scf-to-riscv-scf,convert-arith-to-riscv,reconcile-unrealized-casts,"
            "canonicalize,riscv-scf-loop-range-folding,canonicalize,riscv-allocate-registers,canonicalize,"
            "convert-riscv-scf-to-riscv-cf,canonicalize,riscv-lower-parallel-mov,canonicalize,"
            "riscv-prologue-epilogue-insertion")
BOUNDARY = (0, 1, -1, 2, 2 ** 11 - 1, 2 ** 11, -2 ** 11, -2 ** 11 - 1, 2 ** 31 - 1, -2 ** 31, 31, 32)
LOOPV = (0, 1, 2, 5, -1, 31, 32, -2 ** 31)          # upper bounds
LOOPLB = (0, 1, 2, 5, -1, 31, 32, 2 ** 31 - 1)       # lower bounds (trip counts stay small)
MAX_STEPS = 60_000

# ======================================================================================
# xDSL access (lazy, cached per process)
# ======================================================================================
_X: dict = {}


def X() -> dict:
    if _X:
        return _X
    from xdsl.context import Context
    from xdsl.dialects import get_all_dialects
    from xdsl.dialects.riscv import riscv_code
    from xdsl.parser import Parser
    from xdsl.passes import PassPipeline
    from xdsl.transforms import get_all_passes

    ctx = Context()
    for name, factory in get_all_dialects().items():
        ctx.register_dialect(name, factory)
    passes = PassPipeline.parse_spec(get_all_passes(), PIPELINE).passes
    _X.update(ctx=ctx, Parser=Parser, riscv_code=riscv_code, passes=[(p.name, p) for p in passes],
              canonicalize=[p for p in passes if p.name == "canonicalize"][0],
              prologue=[p for p in passes if p.name == "riscv-prologue-epilogue-insertion"][0])
    return _X


def exc_name(e: BaseException) -> str:
    return type(e).__name__


def exc_summary(e: BaseException, n: int = 110) -> str:
    """first line of the message with numbers abstracted (used as a key in the failure census)"""
    import re
    first = str(e).splitlines()[0] if str(e) else ""
    return f"{type(e).__name__}: {re.sub(r'-?[0-9]+', 'N', first)[:n]}"


def parse_module(text: str):
    x = X()
    m = x["Parser"](x["ctx"], text).parse_module()
    m.verify()
    return m


def lower(module) -> tuple[str, str, str]:
    """run the pipeline in place -> ("ok", asm text, "") | ("failed", pass name, exception summary)"""
    x = X()
    for name, p in x["passes"]:
        try:
            p.apply(x["ctx"], module)
        except Exception as e:  # noqa: BLE001 - a raising stage is a reported failure
            return "failed", name, exc_summary(e)
        try:
            module.verify()
        except Exception as e:  # noqa: BLE001
            return "failed", name + "(verify)", exc_summary(e)
    try:
        return "ok", x["riscv_code"](module), ""
    except Exception as e:  # noqa: BLE001
        return "failed", "riscv-asm-printer", exc_summary(e)


# ======================================================================================
# running assembly against a reference
# ======================================================================================
def split_args(types: list[str], args) -> tuple[list[int], list[int]]:
    """source level argument values (ints / float bit patterns) -> a-register and fa-register contents"""
    xs, fs = [], []
    for t, v in zip(types, args):
        if t == "f32":
            fs.append(V.box_s(v))
        elif t == "f64":
            fs.append(v & V.M64)
        else:
            xs.append(v & M32)
    return xs, fs


def results_of(m: V.Machine, types: list[str]) -> list[int]:
    """values of the result registers: integer results in a0, a1, float results in fa0, fa1 (separately counted)"""
    out, xi, fi = [], 10, 10
    for t in types:
        if t in ("f32", "f64"):
            out.append(m.rs(fi) if t == "f32" else m.f[fi])
            fi += 1
        else:
            out.append(m.x[xi] & 1 if t == "i1" else m.x[xi])
            xi += 1
    return out


def callee_state_violations(m: V.Machine, init: dict) -> list[tuple[str, str]]:
    out = []
    for i in V.CALLEE_SAVED_X:
        if m.x[i] != init["x"][i]:
            out.append((f"callee-saved-not-restored|{V.XNAME[i]}", f"{V.XNAME[i]} = {m.x[i]:#x}, was {init['x'][i]:#x}"))
    for i in V.CALLEE_SAVED_F:
        if m.f[i] != init["f"][i]:
            out.append((f"callee-saved-not-restored|{V.FNAME[i]}", f"{V.FNAME[i]} = {m.f[i]:#x}, was {init['f'][i]:#x}"))
    if m.x[V.SP] != init["x"][V.SP]:
        out.append(("sp-not-restored", f"sp = {m.x[V.SP]:#x}, was {init['x'][V.SP]:#x}"))
    return out


def asm_problem(st: Stats, e: Exception) -> tuple[str, str] | None:
    """classify a parse / execution problem of emitted text -> (signature tail, sentence) or None when it is a
    limit of the model (recorded as a cap)"""
    if isinstance(e, V.Unmodelled):
        st.cap(f"C22|asm|unmodelled-instruction|{e.mnemonic}")
        st.outcomes["unmodelled-instruction"] += 1
        return None
    if isinstance(e, V.AsmError):
        if e.kind == "not-a-register":
            return "unallocated-register-in-output", f"operand {e.detail} of `{e.line}` is not a register"
        return f"asm-does-not-execute|{e.kind}|{e.mnemonic}", f"`{e.line}`: {e.kind} ({e.detail})"
    if isinstance(e, V.ExecError):
        return f"asm-does-not-execute|{e.kind}", f"execution stopped: {e.kind} {e.detail}"
    raise e


class Lowered:
    """one program: source module (for the reference), emitted text, parsed text"""

    def __init__(self, text: str, ref_text: str | None = None, entry: str = "f"):
        self.text = text
        self.ref_text = ref_text or text
        self.entry = entry
        self.src = parse_module(self.ref_text)
        fn = [op for op in self.src.walk() if op.name == "func.func"][0]
        self.in_types = [R.type_str(t) for t in fn.properties["function_type"].inputs.data]
        self.out_types = [R.type_str(t) for t in fn.properties["function_type"].outputs.data]
        mod = parse_module(text) if ref_text else self.src.clone()
        self.status, self.asm, self.detail = lower(mod)
        self.prog = None
        self.asm_exc: Exception | None = None
        if self.status == "ok":
            try:
                self.prog = V.parse(self.asm)
            except (V.AsmError, V.Unmodelled) as e:
                self.asm_exc = e


def run_inputs(st: Stats, L: Lowered, blame: str, arg_lists, seed: int = 0, sample_label: str = "") -> bool:
    """execute one lowered program on every argument tuple; -> True iff no violation was recorded"""
    ok = True
    base = {"kind": "pipeline", "text": L.text, "asm": L.asm}
    if L.ref_text != L.text:
        base["ref_text"] = L.ref_text
    if L.asm_exc is not None:
        p = asm_problem(st, L.asm_exc)
        if p is not None:
            sig = "C22|asm|unallocated-register-in-output" if p[0].startswith("unallocated") else f"C22|pipeline|{p[0]}"
            st.violate(sig, f"{blame}: emitted assembly is not valid: {p[1]}", {**base, "args": []})
            st.outcomes["asm-invalid"] += 1
            return False
        return True
    k = 0
    nontrivial = False
    for args in itertools.product(*arg_lists):
        k += 1
        st.transitions += 1
        try:
            ref, _ = R.run_func(L.src, list(args), index_width=32, fuel=60_000)
        except R.OutOfFuel:
            st.outcomes["input-excluded(reference out of fuel)"] += 1
            continue
        if ref is POISON:
            st.outcomes["input-excluded(source poison/UB)"] += 1
            continue
        st.executions += 1
        xs, fs = split_args(L.in_types, args)
        wit = {**base, "args": list(args)}
        try:
            m, init = V.call(L.prog, L.entry, xs, fs, max_steps=MAX_STEPS)
        except V.ExecError as e:
            p = asm_problem(st, e)
            st.violate(f"C22|pipeline|{p[0]}", f"{blame}: {p[1]}", wit)
            st.outcomes["asm-does-not-execute"] += 1
            ok = False
            continue
        except V.Unmodelled as e:
            asm_problem(st, e)
            continue
        st.evaluations += 1
        gots = results_of(m, [t for t, _ in ref])
        bad = [i for i, ((t, bits), got) in enumerate(zip(ref, gots)) if not R.values_equal(t, got, bits)]
        got = gots[0]
        if bad:
            exp = [bits for _, bits in ref]
            st.violate(f"C22|pipeline|{blame}|wrong-result",
                       f"{blame}: emitted code returns {', '.join(hex(g) for g in gots)}, the source computes "
                       f"{', '.join(hex(b) for b in exp)}", {**wit, "got": gots, "expected": exp})
            st.outcomes["wrong-result"] += 1
            ok = False
        else:
            st.outcomes["result-agrees"] += 1
        if got not in (0, 1) or m.steps > 6:
            nontrivial = True
        for tail, what in callee_state_violations(m, init):
            st.evaluations += 1
            st.violate(f"C22|pipeline|{tail}", f"{blame}: {what}", wit)
            ok = False
        if sample_label and (k + seed) % 97 == 0:
            st.sample({"program": sample_label, "args": list(args), "result": got, "steps": m.steps})
    if nontrivial:
        st.nontrivial += 1
    return ok


# ======================================================================================
# Part 1a: generic integer programs
# ======================================================================================
BIN = ("addi", "subi", "muli", "andi", "ori", "xori", "shli", "shrsi", "shrui", "divsi", "divui", "remsi", "remui")
BIN3 = ("addi", "subi", "muli", "andi", "shli", "shrsi", "divui")
UNSUPPORTED_BIN = ("minsi", "maxsi", "minui", "maxui", "floordivsi", "ceildivsi", "ceildivui")
C_QUICK2 = (0, 1, 2 ** 11 - 1, -2 ** 11)
C_THOROUGH2 = (0, 1, -1, 2 ** 11 - 1, 2 ** 11, -2 ** 11, 31, -2 ** 31)
C_THOROUGH3 = (1, -2 ** 11)


def ref_name(r) -> str:
    if isinstance(r, str):
        return "%" + r
    if r[0] == "c":
        return f"%c{r[1]}".replace("-", "m")
    return f"%r{r[1]}"


def prog_text(nargs: int, ops, ty: str = "i32", ret_ty: str | None = None) -> str:
    """ops: ((opname, x, y), ...) with operands "a" | "b" | ("c", value) | ("r", index)"""
    consts = []
    for _, *operands in ops:
        for o in operands:
            if not isinstance(o, str) and o[0] == "c" and o not in consts:
                consts.append(o)
    args = ", ".join(f"%{n}: {ty}" for n in "ab"[:nargs])
    lines = ["builtin.module {", f"  func.func @f({args}) -> {ret_ty or ty} {{"]
    for c in consts:
        lines.append(f"    {ref_name(c)} = arith.constant {c[1]} : {ty}")
    for i, (name, *operands) in enumerate(ops):
        lines.append(f"    %r{i} = arith.{name} {', '.join(ref_name(o) for o in operands)} : {ty}")
    lines += [f"    func.return %r{len(ops) - 1} : {ret_ty or ty}", "  }", "}"]
    return "\n".join(lines)


def used_args(ops) -> set:
    return {o for _, *operands in ops for o in operands if isinstance(o, str)}


def nargs_of(ops) -> int | None:
    u = used_args(ops)
    if u == {"b"}:
        return None             # equal to an a-only program up to renaming
    return len(u)


def all_live(ops) -> bool:
    n = len(ops)
    for i in range(n - 1):
        if not any(("r", i) in operands for _, *operands in ops[i + 1:]):
            return False
    return True


def gen_int_programs(quick: bool):
    """yield (family, nargs, ops)"""
    cs1 = [("c", v) for v in BOUNDARY]
    v1 = ["a", "b"] + cs1
    for name in BIN:
        for x, y in itertools.product(v1, repeat=2):
            ops = ((name, x, y),)
            n = nargs_of(ops)
            if n is not None:
                yield "int1", n, ops
    if quick:
        cs = [("c", v) for v in C_QUICK2]
        first = [p for p in itertools.product(["a"] + cs, repeat=2) if "a" in p]
        second = [p for p in itertools.product([("r", 0), "a"] + cs, repeat=2) if ("r", 0) in p]
        for n1, p1, n2, p2 in itertools.product(BIN, first, BIN, second):
            yield "int2", 1, ((n1, *p1), (n2, *p2))
        first = [("a", "b"), ("b", "a")]
        second = [p for p in itertools.product([("r", 0), "a", "b"], repeat=2) if ("r", 0) in p]
        for n1, p1, n2, p2 in itertools.product(BIN, first, BIN, second):
            yield "int2", 2, ((n1, *p1), (n2, *p2))
        return
    cs = [("c", v) for v in C_THOROUGH2]
    first = [p for p in itertools.product(["a", "b"] + cs, repeat=2) if "a" in p or "b" in p]
    second = [p for p in itertools.product([("r", 0), "a", "b"] + cs, repeat=2) if ("r", 0) in p]
    for n1, p1, n2, p2 in itertools.product(BIN, first, BIN, second):
        ops = ((n1, *p1), (n2, *p2))
        n = nargs_of(ops)
        if n is not None:
            yield "int2", n, ops
    cs = [("c", v) for v in C_THOROUGH3]
    first = [p for p in itertools.product(["a"] + cs, repeat=2) if "a" in p]
    second = [p for p in itertools.product([("r", 0), "a"] + cs, repeat=2) if "a" in p or ("r", 0) in p]
    third = [p for p in itertools.product([("r", 1), ("r", 0), "a"] + cs, repeat=2) if ("r", 1) in p]
    for n1, p1, n2, p2, n3, p3 in itertools.product(BIN3, first, BIN3, second, BIN3, third):
        ops = ((n1, *p1), (n2, *p2), (n3, *p3))
        if all_live(ops):
            yield "int3", 1, ops


_SINGLE_FAILS: dict = {}


def standalone(op) -> tuple:
    """the op on its own: constants stay, every run time operand (argument or earlier result) becomes an argument"""
    name, *operands = op
    names: dict = {}
    out = []
    for o in operands:
        if not isinstance(o, str) and o[0] == "c":
            out.append(o)
        else:
            out.append(names.setdefault(o, "ab"[len(names)]))
    return (name, *out)


def single_op_fails(op1: tuple) -> bool:
    """does the one-op program already return a wrong result on some boundary input?  (used to blame)"""
    if op1 not in _SINGLE_FAILS:
        n = len(used_args((op1,)))
        L = Lowered(prog_text(n, (op1,)))
        _SINGLE_FAILS[op1] = L.prog is not None and not run_inputs(Stats(), L, "probe", [BOUNDARY] * n)
    return _SINGLE_FAILS[op1]


def blame_of(ops) -> str:
    if len(ops) > 1:
        for op in ops:
            if single_op_fails(standalone(op)):
                return f"arith.{op[0]}"
    return "+".join(f"arith.{n}" for n, *_ in ops)


def _int_shard(task) -> Stats:
    _, quick, lo, hi, seed = task
    st = Stats()
    for idx, (family, nargs, ops) in enumerate(itertools.islice(gen_int_programs(quick), lo, hi), lo):
        text = prog_text(nargs, ops)
        st.states += 1
        L = Lowered(text)
        if L.status != "ok":
            st.outcomes[f"reported-failure:{L.asm}"] += 1
            rf = st.extra.setdefault("reported_failures", {})
            rf[f"{L.asm}: {L.detail}"] = rf.get(f"{L.asm}: {L.detail}", 0) + 1
            continue
        st.outcomes[f"lowered:{family}"] += 1
        blame = "+".join(f"arith.{n}" for n, *_ in ops)
        ok = run_inputs(st, L, blame, [BOUNDARY] * nargs, seed, text if (idx + seed) % 1009 == 0 else "")
        if not ok and len(ops) > 1:
            # re-attribute: first op that is wrong on its own, else the op tuple
            better = blame_of(ops)
            if better != blame:
                for sig in [s for s in st.violations if s == f"C22|pipeline|{blame}|wrong-result"]:
                    v = st.violations.pop(sig)
                    new = f"C22|pipeline|{better}|wrong-result"
                    if new in st.violations:
                        st.violations[new]["count"] += v["count"]
                    else:
                        st.violations[new] = v
    return st


# ======================================================================================
# Part 1b: fixed families (index, unsupported ops, floats, cmpi / cmpf, scf)
# ======================================================================================
def f32b(x: float) -> int:
    return struct.unpack("<I", struct.pack("<f", x))[0]


def f64b(x: float) -> int:
    return struct.unpack("<Q", struct.pack("<d", x))[0]


F32_VALUES = (0x00000000, 0x80000000, f32b(1.0), f32b(-1.0), f32b(1.5), f32b(2.5), f32b(-1.5), f32b(-2.5), f32b(0.1),
              f32b(3.0), 0x7F7FFFFF, 0x00000001, 0x7F800000, 0xFF800000, 0x7FC00000, f32b(16777216.0), f32b(2147483520.0),
              f32b(-2147483648.0), f32b(0.5), f32b(1e10))
F64_VALUES = (f64b(0.0), f64b(-0.0), f64b(1.0), f64b(-1.0), f64b(1.5), f64b(2.5), f64b(-1.5), f64b(-2.5), f64b(0.1), f64b(3.0),
              0x7FEFFFFFFFFFFFFF, 0x0000000000000001, 0x7FF0000000000000, 0xFFF0000000000000, 0x7FF8000000000000,
              f64b(9007199254740992.0), f64b(2147483647.0), f64b(-2147483648.0), f64b(0.5), f64b(2147483647.5))
CMPI = ("eq", "ne", "slt", "sle", "sgt", "sge", "ult", "ule", "ugt", "uge")
CMPF = ("false", "oeq", "ogt", "oge", "olt", "ole", "one", "ord", "ueq", "ugt", "uge", "ult", "ule", "une", "uno", "true")


# constants around every shortcut of LowerArithConstant (12-bit immediates, s32 range of the li + fcvt.d.w path for
# integer-valued f64, li normalisation of unsigned forms, bit-pattern path of f32, stack path of f64)
INT_CONSTS = (0, 1, -1, 2047, 2048, -2048, -2049, 2 ** 31 - 1, -2 ** 31, 2 ** 31, 2 ** 32 - 1, -2 ** 31 + 1, 4096, -4096, 0x7FFFF800)
F64_CONSTS = ("0.0", "-0.0", "0.5", "-0.5", "1.5", "1.0", "-1.0", "3.0", "0.1", "2047.0", "2048.0", "-2048.0", "-2049.0",
              "2147483647.0", "2147483648.0", "2147483649.0", "2147483647.5", "-2147483648.0", "-2147483649.0", "-2147483647.0",
              "-2147483648.5", "4294967295.0", "4294967296.0", "4503599627370497.0", "1.0e+300", "-1.0e+300", "4.9e-324",
              "0x7FF0000000000000", "0xFFF0000000000000", "0x7FF8000000000000")
F32_CONSTS = ("0.0", "-0.0", "0.5", "-0.5", "1.5", "1.0", "-1.0", "3.0", "0.1", "2047.0", "2048.0", "-2048.0", "-2049.0",
              "2147483520.0", "2147483648.0", "2147483904.0", "-2147483648.0", "-2147483904.0", "-2147483520.0",
              "4294967040.0", "4294967296.0", "16777216.0", "16777218.0", "3.0e+38", "-3.0e+38", "1.0e-45",
              "0x7F800000", "0xFF800000", "0x7FC00000")


def int_class(c: int) -> str:
    return "imm12" if -2048 <= c <= 2047 else "s32" if -2 ** 31 <= c < 2 ** 31 else "unsigned-form"


def float_class(c: str, t: str) -> str:
    if c.startswith("0x"):
        return "inf/nan"
    v = float(c)
    if c.startswith("-") and v == 0.0:
        return "negative-zero"
    if v != int(v) if abs(v) < 2 ** 63 else False:
        return "non-integral"
    return "integral-in-s32" if -2 ** 31 <= v < 2 ** 31 else "integral-outside-s32"


def fvals(t: str):
    return F32_VALUES if t == "f32" else F64_VALUES


def wrapped_cmp(op: str, pred: str, t: str) -> tuple[str, str]:
    """-> (riscv_func text with the arith op between unrealized casts, reference func.func text)"""
    rt, ar = ("!riscv.reg", "a") if t == "i32" else ("!riscv.freg", "fa")
    mv = "riscv.mv" if t == "i32" else ("riscv.fmv.s" if t == "f32" else "riscv.fmv.d")
    text = f"""builtin.module {{
  riscv_func.func @f(%a : {rt}<{ar}0>, %b : {rt}<{ar}1>) -> !riscv.reg<a0> {{
    %am = {mv} %a : ({rt}<{ar}0>) -> {rt}
    %bm = {mv} %b : ({rt}<{ar}1>) -> {rt}
    %x = builtin.unrealized_conversion_cast %am : {rt} to {t}
    %y = builtin.unrealized_conversion_cast %bm : {rt} to {t}
    %c = arith.{op} {pred}, %x, %y : {t}
    %r = builtin.unrealized_conversion_cast %c : i1 to !riscv.reg
    %o = riscv.mv %r : (!riscv.reg) -> !riscv.reg<a0>
    riscv_func.return %o : !riscv.reg<a0>
  }}
}}"""
    ref = f"""builtin.module {{
  func.func @f(%x: {t}, %y: {t}) -> i1 {{
    %c = arith.{op} {pred}, %x, %y : {t}
    func.return %c : i1
  }}
}}"""
    return text, ref


def fixed_programs(quick: bool) -> list[dict]:
    """each: {label, blame, text, [ref_text], args: [value lists]}"""
    out: list[dict] = []
    B = list(BOUNDARY)

    def add(label, blame, text, args, ref_text=None):
        out.append({"label": label, "blame": blame, "text": text, "ref_text": ref_text, "args": [list(a) for a in args]})

    # ---- index: cast in, op with an index constant or the other argument, cast out
    for name in BIN:
        for rhs, nargs in (("%j", 2), ("%i", 1), ("%k", 1)):
            for c in ((3,) if rhs != "%k" else (2 ** 11, -2 ** 11 - 1, 31, 32)):
                sig = "%a: i32, %b: i32" if nargs == 2 else "%a: i32"
                castb = "    %j = arith.index_cast %b : i32 to index\n" if nargs == 2 else ""
                add(f"index:{name}:{rhs}:{c}", f"arith.{name} index", f"""builtin.module {{
  func.func @f({sig}) -> i32 {{
    %i = arith.index_cast %a : i32 to index
{castb}    %k = arith.constant {c} : index
    %x = arith.{name} %i, {rhs} : index
    %r = arith.index_cast %x : index to i32
    func.return %r : i32
  }}
}}""", [B] * nargs)
    # ---- ops the lowering rejects (expected: reported failure)
    for name in UNSUPPORTED_BIN:
        add(f"unsupported:{name}", f"arith.{name}", prog_text(2, ((name, "a", "b"),)), [B, B])
    add("unsupported:select", "arith.select", """builtin.module {
  func.func @f(%a: i32, %b: i32) -> i32 {
    %c = arith.cmpi slt, %a, %b : i32
    %r = arith.select %c, %a, %b : i32
    func.return %r : i32
  }
}""", [B, B])
    for p in CMPI:
        add(f"cmpi-returned:{p}", f"arith.cmpi {p}", f"""builtin.module {{
  func.func @f(%a: i32, %b: i32) -> i1 {{
    %c = arith.cmpi {p}, %a, %b : i32
    func.return %c : i1
  }}
}}""", [B, B])
    # ---- comparisons wrapped in a riscv_func.func
    for p in CMPI:
        text, ref = wrapped_cmp("cmpi", p, "i32")
        add(f"cmpi:{p}", f"arith.cmpi {p}", text, [B, B], ref)
    for t in ("f32", "f64"):
        for p in CMPF:
            text, ref = wrapped_cmp("cmpf", p, t)
            add(f"cmpf:{p}:{t}", f"arith.cmpf {p} {t}", text, [fvals(t), fvals(t)], ref)
    # ---- constants: every shortcut of LowerArithConstant with its boundary values on both sides
    for t, consts in (("i32", INT_CONSTS), ("index", INT_CONSTS)):
        for c in consts:
            add(f"const:{t}:{c}", f"arith.constant {t} {int_class(c)}", f"""builtin.module {{
  func.func @f() -> i32 {{
    %c = arith.constant {c} : {t}
{"    %r = arith.index_cast %c : index to i32" if t == "index" else ""}
    func.return {"%r" if t == "index" else "%c"} : i32
  }}
}}""", [])
    for t, consts in (("f32", F32_CONSTS), ("f64", F64_CONSTS)):
        for c in consts:
            cls = float_class(c, t)
            add(f"const:{t}:{c}", f"arith.constant {t} {cls}", f"""builtin.module {{
  func.func @f() -> {t} {{
    %c = arith.constant {c} : {t}
    func.return %c : {t}
  }}
}}""", [])
            add(f"const+addf:{t}:{c}", f"arith.constant {t} {cls}", f"""builtin.module {{
  func.func @f(%a: {t}) -> {t} {{
    %c = arith.constant {c} : {t}
    %r = arith.addf %a, %c : {t}
    func.return %r : {t}
  }}
}}""", [list(fvals(t))[:12]])
            add(f"const+mulf:{t}:{c}", f"arith.constant {t} {cls}", f"""builtin.module {{
  func.func @f(%a: {t}) -> {t} {{
    %c = arith.constant {c} : {t}
    %r = arith.mulf %c, %a : {t}
    func.return %r : {t}
  }}
}}""", [list(fvals(t))[:12]])
    # ---- floats
    for t in ("f32", "f64"):
        fv = fvals(t)
        for name in ("addf", "subf", "mulf", "divf", "minimumf", "maximumf"):
            for wiring in ("ab", "ba", "aa", "ac", "ca"):
                for c in (("1.5", "3.0", "0.1") if "c" in wiring else ("",)):
                    n = 2 if "b" in wiring else 1
                    names = {"a": "%a", "b": "%b", "c": "%c"}
                    cdef = f"    %c = arith.constant {c} : {t}\n" if c else ""
                    sig = ", ".join(f"%{v}: {t}" for v in "ab"[:n])
                    add(f"float:{name}:{t}:{wiring}:{c}", f"arith.{name} {t}", f"""builtin.module {{
  func.func @f({sig}) -> {t} {{
{cdef}    %r = arith.{name} {names[wiring[0]]}, {names[wiring[1]]} : {t}
    func.return %r : {t}
  }}
}}""", [fv] * n)
        add(f"float:negf:{t}", f"arith.negf {t}", f"""builtin.module {{
  func.func @f(%a: {t}) -> {t} {{
    %r = arith.negf %a : {t}
    func.return %r : {t}
  }}
}}""", [fv])
        add(f"float:sitofp:{t}", f"arith.sitofp {t}", f"""builtin.module {{
  func.func @f(%a: i32) -> {t} {{
    %r = arith.sitofp %a : i32 to {t}
    func.return %r : {t}
  }}
}}""", [B + [16777217, -16777217, 2 ** 31 - 64, 123456789]])
        add(f"float:fptosi:{t}", f"arith.fptosi {t}", f"""builtin.module {{
  func.func @f(%a: {t}) -> i32 {{
    %r = arith.fptosi %a : {t} to i32
    func.return %r : i32
  }}
}}""", [fv])
        for flags in ("", " fastmath<contract>"):
            for order in ("%m, %c", "%c, %m"):
                add(f"float:mulf+addf:{t}:{flags.strip()}:{order}", f"arith.mulf+arith.addf {t}", f"""builtin.module {{
  func.func @f(%a: {t}, %b: {t}) -> {t} {{
    %c = arith.constant 3.0 : {t}
    %m = arith.mulf %a, %b{flags} : {t}
    %r = arith.addf {order}{flags} : {t}
    func.return %r : {t}
  }}
}}""", [[v for v in fv if v in (fvals(t)[2], fvals(t)[3], fvals(t)[9], fvals(t)[0], fvals(t)[1])]] * 2)
    # ---- two results (parallel move into a0/a1, fa0/fa1)
    for t in ("i32", "f32", "f64"):
        vals = B if t == "i32" else list(fvals(t))[:8]
        for r0, r1 in (("%b", "%a"), ("%a", "%a"), ("%b", "%b"), ("%a", "%b"), ("%x", "%a"), ("%b", "%x"), ("%x", "%x")):
            opn = "arith.addi" if t == "i32" else "arith.addf"
            add(f"two-results:{t}:{r0},{r1}", f"func.return {r0},{r1} {t}", f"""builtin.module {{
  func.func @f(%a: {t}, %b: {t}) -> ({t}, {t}) {{
    %x = {opn} %a, %b : {t}
    func.return {r0}, {r1} : {t}, {t}
  }}
}}""", [vals, vals])
    add("two-results:mixed", "func.return mixed", """builtin.module {
  func.func @f(%a: i32, %p: f32, %b: i32, %q: f32) -> (f32, i32) {
    %x = arith.subi %b, %a : i32
    %y = arith.subf %q, %p : f32
    func.return %y, %x : f32, i32
  }
}""", [[0, 1, -1, 2 ** 31 - 1], list(F32_VALUES)[:6], [0, 5, -2 ** 31], list(F32_VALUES)[2:8]])
    # ---- argument permutations at the source level: return every ordered selection of two arguments; pass
    # permuted arguments to a declared callee (func.call)
    for t in ("i32", "f32", "f64"):
        vals = ([11, -22, 2 ** 31 - 1] if t == "i32" else list(fvals(t))[2:5])
        for n in ((2, 3) if quick else (2, 3, 4)):
            sig = ", ".join(f"%v{i}: {t}" for i in range(n))
            for sel in itertools.product(range(n), repeat=2):
                add(f"perm-return:{t}:{n}:{sel}", f"func.return perm={t}:{perm_shape(sel)}", f"""builtin.module {{
  func.func @f({sig}) -> ({t}, {t}) {{
    func.return %v{sel[0]}, %v{sel[1]} : {t}, {t}
  }}
}}""", [[vals[(i + j) % 3] for j in range(2)] for i in range(n)])
    for si in itertools.product(range(2), repeat=1):
        for sf in itertools.product(range(2), repeat=1):
            for order in ("if", "fi"):
                rets = [(f"%i{si[0]}", "i32"), (f"%f{sf[0]}", "f64")]
                if order == "fi":
                    rets.reverse()
                add(f"perm-return:mixed:{si}{sf}{order}", "func.return perm=mixed", f"""builtin.module {{
  func.func @f(%i0: i32, %f0: f64, %i1: i32, %f1: f64) -> ({rets[0][1]}, {rets[1][1]}) {{
    func.return {rets[0][0]}, {rets[1][0]} : {rets[0][1]}, {rets[1][1]}
  }}
}}""", [[11, -22], list(F64_VALUES)[2:4], [33], list(F64_VALUES)[4:6]])
    for n in (1, 2, 3):
        for sel in itertools.islice(itertools.permutations(range(n)), 0, 6):
            tys = ", ".join(["i32"] * n)
            add(f"perm-call:{n}:{sel}", f"func.call perm=int:{perm_shape(sel)}", f"""builtin.module {{
  func.func @g({', '.join(f'%p{i}: i32' for i in range(n))}) -> i32 {{
    func.return %p0 : i32
  }}
  func.func @f({', '.join(f'%v{i}: i32' for i in range(n))}) -> i32 {{
    %r = func.call @g({', '.join(f'%v{j}' for j in sel)}) : ({tys}) -> i32
    func.return %r : i32
  }}
}}""", [[11 + i] for i in range(n)])
    # ---- scf
    L = list(LOOPV)
    LB = list(LOOPLB)
    bodies = {
        "sum": "%x = arith.addi %acc, %i : i32",
        "mul3": "%c3 = arith.constant 3 : i32\n      %m = arith.muli %acc, %c3 : i32\n      %x = arith.addi %m, %i : i32",
        "iv*3": "%c3 = arith.constant 3 : i32\n      %m = arith.muli %i, %c3 : i32\n      %x = arith.addi %acc, %m : i32",
        "iv+5": "%c5 = arith.constant 5 : i32\n      %m = arith.addi %i, %c5 : i32\n      %x = arith.xori %acc, %m : i32",
        "iv*4+7": ("%c4 = arith.constant 4 : i32\n      %c7 = arith.constant 7 : i32\n      %m = arith.muli %i, %c4 : i32\n"
                   "      %n = arith.addi %m, %c7 : i32\n      %x = arith.addi %acc, %n : i32"),
        "iv*-2": "%cm2 = arith.constant -2 : i32\n      %m = arith.muli %i, %cm2 : i32\n      %x = arith.addi %acc, %m : i32",
        "iv-3": "%cm3 = arith.constant -3 : i32\n      %m = arith.addi %i, %cm3 : i32\n      %x = arith.addi %acc, %m : i32",
        "sub-ub": "%m = arith.subi %i, %b : i32\n      %x = arith.addi %acc, %m : i32",
    }
    const_bounds = [(0, 5, 1), (0, 5, 2), (3, 3, 1), (5, 0, 1), (-2, 3, 1), (0, 10, 3), (1, 2 ** 11 + 1, 2 ** 11 - 1), (0, 1, 2 ** 11),
                    (-2 ** 11 - 1, -2 ** 11 + 2, 1), (7, 8, 1)]
    if not quick:
        const_bounds += [(0, 64, 1), (2, 31, 4), (-5, -1, 2), (2 ** 31 - 3, 2 ** 31 - 1, 1), (0, 100, 7), (-2 ** 31, -2 ** 31 + 4, 3)]
    for bname, body in bodies.items():
        for lb, ub, step in const_bounds:
            add(f"scf.for:const({lb},{ub},{step}):{bname}", f"scf.for+{bname}", f"""builtin.module {{
  func.func @f(%a: i32, %b: i32) -> i32 {{
    %lb = arith.constant {lb} : i32
    %ub = arith.constant {ub} : i32
    %st = arith.constant {step} : i32
    %r = scf.for %i = %lb to %ub step %st iter_args(%acc = %a) -> (i32) : i32 {{
      {body}
      scf.yield %x : i32
    }}
    func.return %r : i32
  }}
}}""", [B, B if bname == "sub-ub" else [0]])
        if bname == "sub-ub":
            continue
        for form, lbv, ubv in (("0..a", "%c0", "%a"), ("a..b", "%a", "%b"), ("a..7", "%a", "%c7b"), ("b..a", "%b", "%a")):
            for step in (1, 2) if quick else (1, 2, 3):
                init = "%b" if form == "0..a" else "%c1"
                add(f"scf.for:{form}:step{step}:{bname}", f"scf.for+{bname}", f"""builtin.module {{
  func.func @f(%a: i32, %b: i32) -> i32 {{
    %c0 = arith.constant 0 : i32
    %c1 = arith.constant 1 : i32
    %c7b = arith.constant 7 : i32
    %st = arith.constant {step} : i32
    %r = scf.for %i = {lbv} to {ubv} step %st iter_args(%acc = {init}) -> (i32) : i32 {{
      {body}
      scf.yield %x : i32
    }}
    func.return %r : i32
  }}
}}""", {"0..a": [L, B], "a..b": [LB, L], "a..7": [LB, B], "b..a": [L, LB]}[form])
    add("scf.for:arg-step", "scf.for+arg-step", """builtin.module {
  func.func @f(%a: i32, %b: i32) -> i32 {
    %c0 = arith.constant 0 : i32
    %c9 = arith.constant 9 : i32
    %r = scf.for %i = %c0 to %c9 step %b iter_args(%acc = %a) -> (i32) : i32 {
      %x = arith.addi %acc, %i : i32
      scf.yield %x : i32
    }
    func.return %r : i32
  }
}""", [B, [1, 2, 3, 8, 9, 10, 2 ** 11, 2 ** 31 - 1]])
    add("scf.for:swap-iter-args", "scf.for+swap", """builtin.module {
  func.func @f(%a: i32, %b: i32) -> i32 {
    %c0 = arith.constant 0 : i32
    %c1 = arith.constant 1 : i32
    %c3 = arith.constant 3 : i32
    %p, %q = scf.for %i = %c0 to %c3 step %c1 iter_args(%x = %a, %y = %b) -> (i32, i32) : i32 {
      scf.yield %y, %x : i32, i32
    }
    %r = arith.subi %p, %q : i32
    func.return %r : i32
  }
}""", [B, B])
    add("scf.for:rotate-three", "scf.for+rotate", """builtin.module {
  func.func @f(%a: i32, %b: i32) -> i32 {
    %c0 = arith.constant 0 : i32
    %c1 = arith.constant 1 : i32
    %c7 = arith.constant 7 : i32
    %p, %q, %s = scf.for %i = %c0 to %b step %c1 iter_args(%x = %a, %y = %c7, %z = %c1) -> (i32, i32, i32) : i32 {
      %n = arith.addi %z, %i : i32
      scf.yield %y, %n, %x : i32, i32, i32
    }
    %t = arith.subi %p, %q : i32
    %c5 = arith.constant 5 : i32
    %u = arith.muli %s, %c5 : i32
    %r = arith.addi %t, %u : i32
    func.return %r : i32
  }
}""", [B, [0, 1, 2, 3, 4, 5, 6, -1]])
    add("scf.for:nested", "scf.for+nested", """builtin.module {
  func.func @f(%a: i32, %b: i32) -> i32 {
    %c0 = arith.constant 0 : i32
    %c1 = arith.constant 1 : i32
    %r = scf.for %i = %c0 to %a step %c1 iter_args(%acc = %c0) -> (i32) : i32 {
      %in = scf.for %j = %i to %b step %c1 iter_args(%acc2 = %acc) -> (i32) : i32 {
        %m = arith.muli %i, %j : i32
        %x = arith.addi %acc2, %m : i32
        scf.yield %x : i32
      }
      scf.yield %in : i32
    }
    func.return %r : i32
  }
}""", [[0, 1, 2, 5, -1], [0, 1, 3, 6, -2 ** 31]])
    add("scf.for:index", "scf.for+index", """builtin.module {
  func.func @f(%a: i32, %b: i32) -> i32 {
    %c0 = arith.constant 0 : index
    %c1 = arith.constant 1 : index
    %n = arith.index_cast %a : i32 to index
    %bi = arith.index_cast %b : i32 to index
    %r = scf.for %i = %c0 to %n step %c1 iter_args(%acc = %bi) -> (index) {
      %x = arith.addi %acc, %i : index
      scf.yield %x : index
    }
    %o = arith.index_cast %r : index to i32
    func.return %o : i32
  }
}""", [L, B])
    add("scf.for:no-iter-args-result-unused", "scf.for+dead", """builtin.module {
  func.func @f(%a: i32, %b: i32) -> i32 {
    %c0 = arith.constant 0 : i32
    %c1 = arith.constant 1 : i32
    %r = scf.for %i = %c0 to %a step %c1 iter_args(%acc = %b) -> (i32) : i32 {
      %x = arith.addi %acc, %i : i32
      scf.yield %x : i32
    }
    func.return %b : i32
  }
}""", [L, B])
    add("scf.if", "scf.if", """builtin.module {
  func.func @f(%a: i32, %b: i32) -> i32 {
    %c = arith.cmpi slt, %a, %b : i32
    %r = scf.if %c -> (i32) {
      %p = arith.addi %a, %b : i32
      scf.yield %p : i32
    } else {
      %q = arith.subi %a, %b : i32
      scf.yield %q : i32
    }
    func.return %r : i32
  }
}""", [B, B])
    add("scf.if-in-for", "scf.if", """builtin.module {
  func.func @f(%a: i32, %b: i32) -> i32 {
    %c0 = arith.constant 0 : i32
    %c1 = arith.constant 1 : i32
    %r = scf.for %i = %c0 to %a step %c1 iter_args(%acc = %b) -> (i32) : i32 {
      %c = arith.cmpi ult, %i, %b : i32
      %v = scf.if %c -> (i32) {
        scf.yield %i : i32
      } else {
        scf.yield %acc : i32
      }
      scf.yield %v : i32
    }
    func.return %r : i32
  }
}""", [L, B])
    return out


def _fixed_shard(task) -> Stats:
    _, quick, lo, hi, seed = task
    st = Stats()
    for idx, p in enumerate(fixed_programs(quick)[lo:hi], lo):
        st.states += 1
        L = Lowered(p["text"], p["ref_text"])
        if L.status != "ok":
            st.outcomes[f"reported-failure:{L.asm}"] += 1
            rf = st.extra.setdefault("reported_failures", {})
            rf[f"{L.asm}: {L.detail}"] = rf.get(f"{L.asm}: {L.detail}", 0) + 1
            continue
        st.outcomes[f"lowered:{p['label'].split(':')[0]}"] += 1
        blame = p["blame"]
        if blame.startswith("arith.cmpf ") and blame.endswith(" f64"):
            # when the same predicate is right on f32 the operand type is what matters: blame the type
            t32, r32 = wrapped_cmp("cmpf", blame.split()[1], "f32")
            L32 = Lowered(t32, r32)
            if L32.prog is not None and run_inputs(Stats(), L32, "probe", [F32_VALUES, F32_VALUES]):
                blame = "arith.cmpf f64"
        run_inputs(st, L, blame, p["args"], seed, p["label"] if (idx + seed) % 29 == 0 else "")
    return st


# ======================================================================================
# Part 1c: prologue / epilogue insertion on functions that clobber callee-saved registers
# ======================================================================================
PRO_POOL_QUICK = ("s0", "s1", "s11", "fs0", "fs11")
PRO_POOL_THOROUGH = ("s0", "s1", "s2", "s7", "s11", "fs0", "fs1", "fs11")


def prologue_text(regs: tuple, shape: str) -> str:
    lines = ["builtin.module {",
             "  riscv_func.func @f(%a : !riscv.reg<a0>, %b : !riscv.reg<a1>) -> !riscv.reg<a0> {",
             "    %sp = rv32.get_register : !riscv.reg<sp>",
             "    %t0 = riscv.mv %a : (!riscv.reg<a0>) -> !riscv.reg<t0>"]
    cur = "%t0"
    for k, r in enumerate(regs):
        if r.startswith("fs"):
            lines.append(f"    %v{k} = riscv.fcvt.d.w %b : (!riscv.reg<a1>) -> !riscv.freg<{r}>")
            lines.append(f"    %w{k} = riscv.fadd.d %v{k}, %v{k} : (!riscv.freg<{r}>, !riscv.freg<{r}>) -> !riscv.freg<{r}>")
            lines.append(f"    riscv.fsd %sp, %w{k}, -8 : (!riscv.reg<sp>, !riscv.freg<{r}>) -> ()")
            lines.append(f"    %g{k} = riscv.lw %sp, -4 : (!riscv.reg<sp>) -> !riscv.reg<t1>")
            lines.append(f"    %u{k} = riscv.add {cur}, %g{k} : (!riscv.reg<t0>, !riscv.reg<t1>) -> !riscv.reg<t0>")
        else:
            lines.append(f"    %v{k} = riscv.addi %b, {k + 3} : (!riscv.reg<a1>) -> !riscv.reg<{r}>")
            lines.append(f"    %u{k} = riscv.add {cur}, %v{k} : (!riscv.reg<t0>, !riscv.reg<{r}>) -> !riscv.reg<t0>")
        cur = f"%u{k}"
    if shape == "one-return":
        lines += [f"    %o = riscv.mv {cur} : (!riscv.reg<t0>) -> !riscv.reg<a0>", "    riscv_func.return %o : !riscv.reg<a0>"]
    else:
        lines += [f"    riscv_cf.blt %a : !riscv.reg<a0>, %b : !riscv.reg<a1>, ^bb1(), ^bb2()",
                  "  ^bb2:", '    riscv.label "l2"',
                  f"    %o2 = riscv.mv {cur} : (!riscv.reg<t0>) -> !riscv.reg<a0>", "    riscv_func.return %o2 : !riscv.reg<a0>",
                  "  ^bb1:", '    riscv.label "l1"',
                  f"    %o1 = riscv.addi {cur}, 1 : (!riscv.reg<t0>) -> !riscv.reg<a0>", "    riscv_func.return %o1 : !riscv.reg<a0>"]
    lines += ["  }", "}"]
    return "\n".join(lines)


def gen_prologue(quick: bool):
    pool = PRO_POOL_QUICK if quick else PRO_POOL_THOROUGH
    for n in range(len(pool) + 1):
        for regs in itertools.permutations(pool, n) if n <= 2 else itertools.combinations(pool, n):
            for shape in ("one-return", "two-returns"):
                yield regs, shape


PRO_INPUTS = ((0, 0), (1, 2), (5, 3), (-1, 7), (2 ** 31 - 1, -2 ** 31), (-2 ** 11, 2 ** 11))


def check_prologue(st: Stats, text: str, inputs=PRO_INPUTS) -> None:
    x = X()
    st.states += 1
    mod = parse_module(text)
    try:
        before = V.parse(x["riscv_code"](mod))
    except (V.AsmError, V.Unmodelled) as e:
        st.cap(f"harness: prologue family text does not assemble before the pass: {e}")
        return
    try:
        x["prologue"].apply(x["ctx"], mod)
        mod.verify()
    except Exception as e:  # noqa: BLE001
        st.outcomes[f"reported-failure:riscv-prologue-epilogue-insertion:{exc_name(e)}"] += 1
        return
    asm = x["riscv_code"](mod)
    wit = {"kind": "prologue", "text": text, "asm": asm}
    try:
        after = V.parse(asm)
    except (V.AsmError, V.Unmodelled) as e:
        p = asm_problem(st, e)
        if p is not None:
            st.violate(f"C22|prologue|{p[0]}", f"text after prologue insertion is not valid: {p[1]}", wit)
        return
    st.nontrivial += 1 if "sw" in asm or "fsd" in asm else 0
    for a, b in inputs:
        st.transitions += 1
        m0, _ = V.call(before, "f", (a, b))
        st.executions += 1
        w = {**wit, "args": [a, b]}
        try:
            m1, init = V.call(after, "f", (a, b))
        except V.ExecError as e:
            st.violate(f"C22|pipeline|asm-does-not-execute|{e.kind}", f"after prologue insertion: {e}", w)
            continue
        st.evaluations += 1
        if m1.x[10] != m0.x[10]:
            st.violate("C22|pipeline|riscv-prologue-epilogue-insertion|wrong-result",
                       f"a0 = {m1.x[10]:#x} after the pass, {m0.x[10]:#x} before", w)
            st.outcomes["prologue:wrong-result"] += 1
        bad = callee_state_violations(m1, init)
        for tail, what in bad:
            st.violate(f"C22|pipeline|{tail}", f"after prologue insertion: {what}", w)
        st.evaluations += 25
        st.outcomes["prologue:state-kept" if not bad else "prologue:state-lost"] += 1


def _prologue_shard(task) -> Stats:
    _, quick, lo, hi, seed = task
    st = Stats()
    for idx, (regs, shape) in enumerate(itertools.islice(gen_prologue(quick), lo, hi), lo):
        check_prologue(st, prologue_text(regs, shape))
        if (idx + seed) % 61 == 0:
            st.sample({"prologue-family": list(regs), "shape": shape})
    return st


# ======================================================================================
# Part 1d: argument permutations (parallel moves between argument registers)
# ======================================================================================
def perm_shape(mapping) -> str:
    """mapping[i] = index of the source register moved into destination register i (same register kind, register
    i of the kind is both source i and destination i).  Names the move graph: identity, fixed-point, chain (a
    move that is on no cycle), dup (one source feeds several destinations), swap, 3-cycle, 4-cycle."""
    feats = set()
    k = len(mapping)
    moves = {d: s for d, s in enumerate(mapping)}
    if all(d == s for d, s in moves.items()):
        return "identity"
    if len(set(mapping)) < len(mapping):
        feats.add("dup")
    on_cycle = set()
    for d, s in moves.items():
        if d == s:
            feats.add("fixed-point")
            on_cycle.add(d)
            continue
        # follow sources: d <- s <- moves[s] ... back to d ?
        seen, cur = [d], s
        while cur in moves and cur not in seen and moves[cur] != cur:
            seen.append(cur)
            cur = moves[cur]
        if cur == d:
            feats.add({2: "swap", 3: "3-cycle", 4: "4-cycle"}.get(len(seen), f"{len(seen)}-cycle"))
            on_cycle.update(seen)
    if any(d not in on_cycle for d in moves):
        feats.add("chain")
    order = ["fixed-point", "swap", "3-cycle", "4-cycle", "chain", "dup"]
    return "+".join(sorted(feats, key=lambda f: order.index(f) if f in order else 9))


def perm_text(n_int: int, map_int, n_flt: int, map_flt, fwidth: int) -> str:
    """riscv_func.func whose arguments live in a0.. / fa0.. and whose body is ONE riscv.parallel_mov that moves the
    selected arguments into a0.. / fa0.. (the IR convert-func-to-riscv-func builds for returns and calls, without
    the defensive copies)"""
    args = [f"%x{i} : !riscv.reg<a{i}>" for i in range(n_int)] + [f"%f{i} : !riscv.freg<fa{i}>" for i in range(n_flt)]
    srcs = [f"%x{s}" for s in map_int] + [f"%f{s}" for s in map_flt]
    src_t = [f"!riscv.reg<a{s}>" for s in map_int] + [f"!riscv.freg<fa{s}>" for s in map_flt]
    dst_t = [f"!riscv.reg<a{d}>" for d in range(len(map_int))] + [f"!riscv.freg<fa{d}>" for d in range(len(map_flt))]
    widths = ["32"] * len(map_int) + [str(fwidth)] * len(map_flt)
    res = ", ".join(f"%r{i}" for i in range(len(srcs)))
    return f"""builtin.module {{
  riscv_func.func @f({', '.join(args)}) -> ({', '.join(dst_t)}) {{
    {res} = "riscv.parallel_mov"({', '.join(srcs)}) <{{input_widths = array<i32: {', '.join(widths)}>}}> : ({', '.join(src_t)}) -> ({', '.join(dst_t)})
    riscv_func.return {res} : {', '.join(dst_t)}
  }}
}}"""


def gen_perms(quick: bool):
    """yield (n_int, map_int, n_flt, map_flt, fwidth): every selection-with-order (with repetition) of k <= n
    arguments of a kind, for integers, for floats of either width, and int x float mixes"""
    nmax = 3 if quick else 4
    for n in range(2, nmax + 1):
        for k in range(1, n + 1):
            for m in itertools.product(range(n), repeat=k):
                yield n, m, 0, (), 32
    for fw in (32, 64):
        for n in (2, 3):
            for k in range(1, n + 1):
                for m in itertools.product(range(n), repeat=k):
                    yield 0, (), n, m, fw
    for fw in (32, 64):
        for mi in itertools.product(range(2), repeat=2):
            for mf in itertools.product(range(2), repeat=2):
                yield 2, mi, 2, mf, fw
    if not quick:
        for mi in itertools.product(range(3), repeat=3):
            for mf in itertools.product(range(2), repeat=2):
                yield 3, mi, 2, mf, 64


def perm_label(n_int, map_int, n_flt, map_flt, fwidth) -> str:
    parts = []
    if map_int:
        parts.append("int:" + perm_shape(map_int))
    if map_flt:
        parts.append(f"f{fwidth}:" + perm_shape(map_flt))
    return "perm=" + ",".join(parts)


def check_perm(st: Stats, n_int, map_int, n_flt, map_flt, fwidth, sample: bool = False) -> None:
    text = perm_text(n_int, map_int, n_flt, map_flt, fwidth)
    label = perm_label(n_int, map_int, n_flt, map_flt, fwidth)
    st.states += 1
    mod = parse_module(text)
    status, asm, detail = lower(mod)
    if status != "ok":
        st.outcomes[f"reported-failure:{asm}"] += 1
        rf = st.extra.setdefault("reported_failures", {})
        rf[f"{asm}: {detail}"] = rf.get(f"{asm}: {detail}", 0) + 1
        return
    st.outcomes["lowered:perm"] += 1
    wit = {"kind": "perm", "n_int": n_int, "map_int": list(map_int), "n_flt": n_flt, "map_flt": list(map_flt), "fwidth": fwidth,
           "text": text, "asm": asm}
    try:
        prog = V.parse(asm)
    except (V.AsmError, V.Unmodelled) as e:
        p = asm_problem(st, e)
        if p is not None:
            sig = "C22|asm|unallocated-register-in-output" if p[0].startswith("unallocated") else f"C22|pipeline|{p[0]}"
            st.violate(sig, f"parallel-mov {label}: emitted assembly is not valid: {p[1]}", wit)
        return
    xs = [1000 + 7 * i for i in range(n_int)]
    fs = [V.box_s(f32b(100.0 + i)) if fwidth == 32 else f64b(100.5 + i) for i in range(n_flt)]
    st.transitions += 1
    st.executions += 1
    try:
        m, init = V.call(prog, "f", xs, fs, max_steps=2000)
    except V.ExecError as e:
        st.violate(f"C22|pipeline|asm-does-not-execute|{e.kind}", f"parallel-mov {label}: {e}", wit)
        return
    exp = [init["x"][10 + s] for s in map_int] + [init["f"][10 + s] for s in map_flt]
    got = [m.x[10 + d] for d in range(len(map_int))] + [m.f[10 + d] for d in range(len(map_flt))]
    st.evaluations += len(exp)
    if got != exp:
        st.violate(f"C22|pipeline|parallel-mov {label}|wrong-result",
                   f"parallel-mov {label}: destination registers hold {[hex(g) for g in got]}, expected {[hex(e) for e in exp]}",
                   {**wit, "got": got, "expected": exp})
        st.outcomes["perm:wrong-result"] += 1
    else:
        st.outcomes["perm:result-agrees"] += 1
    for tail, what in callee_state_violations(m, init):
        st.violate(f"C22|pipeline|{tail}", f"parallel-mov {label}: {what}", wit)
    if label not in ("perm=int:identity",) and m.steps > 1:
        st.nontrivial += 1
    if sample:
        st.sample({"parallel-mov": label, "asm": asm.splitlines()[2:]})


def _perm_shard(task) -> Stats:
    _, quick, lo, hi, seed = task
    st = Stats()
    for idx, spec in enumerate(itertools.islice(gen_perms(quick), lo, hi), lo):
        check_perm(st, *spec, sample=(idx + seed) % 67 == 0)
    return st


# ======================================================================================
# Part 2: canonicalization of RISC-V snippets
# ======================================================================================
RR_PATTERNED = ("add", "sub", "mul", "div", "and", "or", "xor")
RR_CONTROL = ("sll", "srl", "sra", "slt", "sltu", "divu", "rem", "remu", "mulh")
RI_OPS = ("addi", "andi", "ori", "xori", "slti", "sltiu")
SH_OPS = ("slli", "srli", "srai", "bclri", "bexti", "binvi", "bseti", "rori")
IMMS = (0, 1, -1, 2, 31, 32, 2 ** 11 - 1, -2 ** 11)
SHAMTS = (0, 1, 16, 31, 32)
CH_IMMS = (0, -1, 2 ** 11 - 1, -2 ** 11)
CH_SH = (0, 1, 31)
MEM_OFFS = (0, 4, -4, 8, 1024, -1024, 2044, -2048)
INT_POOL = ("t0", "t1", "t2", "t3", "t4", "t5", "t6", "a2", "a3", "a4", "a5", "a6", "a7")
FLT_POOL = ("ft0", "ft1", "ft2", "ft3", "ft4", "ft5", "ft6", "ft7", "ft8", "ft9", "ft10", "ft11", "fa2", "fa3")
VARIANTS = ("unallocated", "allocated-distinct", "allocated-inplace")

# node forms (JSON-able lists):  ["arg", i] ["li", c] ["zero"] ["sp"] ["mv", x] ["rr", name, x, y] ["ri", name, x, imm]
# ["sh", name, x, amount] ["load", name, base, imm] ["store", name, base, value, imm] ["fcvt.d.w", x] ["fmv.w.x", x]
# ["fmv.x.w", f] ["fmv.s", f] ["fmv.d", f] ["frr", name, x, y, contract]      (operands are node indices)
_FLOAT_RESULT = {"fcvt.d.w", "fmv.w.x", "fmv.s", "fmv.d", "frr"}


def node_operands(n) -> list[int]:
    k = n[0]
    if k in ("arg", "li", "zero", "sp"):
        return []
    if k in ("mv", "fcvt.d.w", "fmv.w.x", "fmv.x.w", "fmv.s", "fmv.d"):
        return [n[1]]
    if k in ("rr", "frr"):
        return [n[2], n[3]]
    if k in ("ri", "sh", "load"):
        return [n[2]]
    if k == "store":
        return [n[2], n[3]]
    raise AssertionError(n)


def node_is_float(nodes, i) -> bool:
    n = nodes[i]
    return n[0] in _FLOAT_RESULT or (n[0] == "load" and n[1] in ("flw", "fld"))


def assign_registers(nodes, ret: int, variant: str) -> list:
    """register name per node (None = unallocated).  `allocated-inplace`: the result takes the register of its
    first operand when that operand is an intermediate of the same class that dies here."""
    if variant == "unallocated":
        return [f"a{n[1]}" if n[0] == "arg" else n[0] if n[0] in ("zero", "sp") else None for n in nodes]
    last_use = {}
    for i, n in enumerate(nodes):
        for o in node_operands(n):
            last_use[o] = i
    last_use[ret] = len(nodes)
    regs: list = []
    ipool, fpool = list(INT_POOL), list(FLT_POOL)
    for i, n in enumerate(nodes):
        if n[0] == "arg":
            regs.append(f"a{n[1]}")
        elif n[0] == "zero":
            regs.append("zero")
        elif n[0] == "sp":
            regs.append("sp")
        elif n[0] == "store":
            regs.append(None)
        else:
            isf = node_is_float(nodes, i)
            reuse = None
            ops = node_operands(n)
            if variant == "allocated-inplace" and ops:
                o = ops[0] if n[0] != "load" else None
                if (o is not None and nodes[o][0] not in ("arg", "zero", "sp") and node_is_float(nodes, o) == isf
                        and last_use.get(o) == i):
                    reuse = regs[o]
            regs.append(reuse or (fpool if isf else ipool).pop(0))
    return regs


def build_snippet(nodes, ret: int, variant: str):
    """-> ModuleOp holding riscv_func.func @f(a0, a1) -> a0 | fa0"""
    from xdsl.dialects import builtin, riscv, riscv_func, rv32
    from xdsl.ir import Block, Region

    regs = assign_registers(nodes, ret, variant)
    ret_float = node_is_float(nodes, ret)

    def ity(name):
        return riscv.IntRegisterType.from_name(name) if name else riscv.Registers.UNALLOCATED_INT

    def fty(name):
        return riscv.FloatRegisterType.from_name(name) if name else riscv.Registers.UNALLOCATED_FLOAT

    block = Block(arg_types=[ity("a0"), ity("a1")])
    vals: list = []
    for i, n in enumerate(nodes):
        k = n[0]
        rd = fty(regs[i]) if node_is_float(nodes, i) else ity(regs[i])
        if k == "arg":
            vals.append(block.args[n[1]])
            continue
        if k == "li":
            op = rv32.LiOp(n[1], rd=rd)
        elif k in ("zero", "sp"):
            op = rv32.GetRegisterOp(ity(k))
        elif k == "mv":
            op = riscv.MVOp(vals[n[1]], rd=rd)
        elif k == "rr":
            op = _riscv_op(riscv, n[1])(vals[n[2]], vals[n[3]], rd=rd)
        elif k == "ri":
            op = _riscv_op(riscv, n[1])(vals[n[2]], n[3], rd=rd)
        elif k == "sh":
            op = _riscv_op(rv32, n[1])(vals[n[2]], n[3], rd=rd)
        elif k == "load":
            op = _riscv_op(riscv, n[1])(vals[n[2]], n[3], rd=rd)
        elif k == "store":
            op = _riscv_op(riscv, n[1])(vals[n[2]], vals[n[3]], n[4])
        elif k == "fcvt.d.w":
            op = riscv.FCvtDWOp(vals[n[1]], rd=rd)
        elif k == "fmv.w.x":
            op = riscv.FMvWXOp(vals[n[1]], rd=rd)
        elif k == "fmv.x.w":
            op = riscv.FMvXWOp(vals[n[1]], rd=rd)
        elif k == "fmv.s":
            op = riscv.FMVOp(vals[n[1]], rd=rd)
        elif k == "fmv.d":
            op = riscv.FMvDOp(vals[n[1]], rd=rd)
        elif k == "frr":
            from xdsl.dialects.utils import FastMathFlag
            fm = riscv.FastMathFlagsAttr([FastMathFlag.ALLOW_CONTRACT]) if n[4] else None
            op = _riscv_op(riscv, n[1])(vals[n[2]], vals[n[3]], rd=rd, fastmath=fm)
        else:
            raise AssertionError(n)
        block.add_op(op)
        vals.append(op.results[0] if op.results else None)
    if ret_float:
        out = riscv.FMvDOp(vals[ret], rd=fty("fa0"))
        out_t = fty("fa0")
    else:
        out = riscv.MVOp(vals[ret], rd=ity("a0"))
        out_t = ity("a0")
    block.add_op(out)
    block.add_op(riscv_func.ReturnOp(out.results[0]))
    fn = riscv_func.FuncOp("f", Region(block), ((ity("a0"), ity("a1")), (out_t,)))
    mod = builtin.ModuleOp([fn])
    mod.verify()
    return mod


_OPCLS: dict = {}


def _riscv_op(dialect_module, mnemonic: str):
    key = mnemonic
    if key not in _OPCLS:
        from xdsl.dialects import riscv, rv32
        for d in (riscv.RISCV, rv32.RV32):
            for cls in d.operations:
                _OPCLS.setdefault(cls.name.split(".", 1)[1], cls)
    return _OPCLS[key]


def fill_unallocated(mod) -> None:
    """give every unallocated register value its own register (the harness' assignment; snippets are straight
    line code with fewer values than registers, so distinct registers are trivially a valid allocation)"""
    from xdsl.dialects import riscv
    from xdsl.rewriter import Rewriter

    used = set()
    todo = []
    for op in mod.walk():
        for v in list(op.results) + [a for r in op.regions for b in r.blocks for a in b.args]:
            t = v.type
            if isinstance(t, riscv.IntRegisterType | riscv.FloatRegisterType):
                if t.is_allocated:
                    used.add(t.register_name.data)
                else:
                    todo.append(v)
    ipool = [r for r in INT_POOL + ("s2", "s3", "s4", "s5", "s6") if r not in used]
    fpool = [r for r in FLT_POOL + ("fs2", "fs3", "fs4") if r not in used]
    for v in todo:
        if isinstance(v.type, riscv.IntRegisterType):
            Rewriter.replace_value_with_new_type(v, riscv.IntRegisterType.from_name(ipool.pop(0)))
        else:
            Rewriter.replace_value_with_new_type(v, riscv.FloatRegisterType.from_name(fpool.pop(0)))


def snippet_inputs(nodes, ret: int) -> list[tuple[int, int]]:
    live = live_nodes(nodes, ret)
    used = {nodes[i][1] for i in live if nodes[i][0] == "arg"}
    has_float = any(n[0] in ("fcvt.d.w", "frr") for n in nodes)
    av = (0, 1, -1, 3, 100, -7, 2 ** 20) if has_float else BOUNDARY
    return [(a, b) for a in (av if 0 in used else (0,)) for b in (av if 1 in used else (0,))]


def run_text(asm: str, inputs):
    """-> list of (a0, fa0) per input; raises AsmError / Unmodelled / ExecError"""
    prog = V.parse(asm)
    out = []
    for a, b in inputs:
        m, _ = V.call(prog, "f", (a, b), max_steps=2000)
        out.append((m.x[10], m.f[10]))
    return out


def check_snippet(st: Stats, key: str, nodes, ret: int, variant: str, sample: bool = False) -> None:
    x = X()
    st.states += 1
    key = sig_key(key)
    try:
        mod = build_snippet(nodes, ret, variant)
    except Exception as e:  # noqa: BLE001 - e.g. an immediate the attribute type rejects: not a program
        st.outcomes[f"canon:unconstructible:{exc_name(e)}"] += 1
        return
    before_ir = str(mod)
    inputs = snippet_inputs(nodes, ret)
    ret_float = node_is_float(nodes, ret)
    wit = {"kind": "canon", "key": key, "variant": variant, "nodes": [list(n) for n in nodes], "ret": ret, "before_ir": before_ir}
    # -- before
    ref_mod = mod.clone()
    if variant == "unallocated":
        fill_unallocated(ref_mod)
    try:
        before = run_text(x["riscv_code"](ref_mod), inputs)
    except (V.AsmError, V.ExecError) as e:
        st.cap(f"harness: snippet does not execute before canonicalization ({key}, {variant}): {e}")
        return
    except V.Unmodelled as e:
        asm_problem(st, e)
        return
    if variant != "unallocated":
        # the harness' own allocation must be a valid one: same results as with one register per value
        base_mod = build_snippet(nodes, ret, "unallocated")
        fill_unallocated(base_mod)
        if run_text(x["riscv_code"](base_mod), inputs) != before:
            st.cap(f"harness: invalid allocation generated for {key} ({variant})")
            return
    # -- canonicalize
    st.transitions += 1
    try:
        x["canonicalize"].apply(x["ctx"], mod)
    except Exception as e:  # noqa: BLE001
        st.outcomes[f"canon:canonicalize-raises:{exc_name(e)}"] += 1
        cr = st.extra.setdefault("canonicalize_raises", {})
        cr[exc_summary(e)] = cr.get(exc_summary(e), 0) + 1
        return
    try:
        mod.verify()
    except Exception as e:  # noqa: BLE001
        st.outcomes[f"canon:output-does-not-verify:{exc_name(e)}"] += 1
        cr = st.extra.setdefault("canonicalize_raises", {})
        cr["verify after: " + exc_summary(e)] = cr.get("verify after: " + exc_summary(e), 0) + 1
        return
    after_ir = str(mod)
    changed = after_ir != before_ir
    st.outcomes[f"canon:{variant}:{'rewritten' if changed else 'unchanged'}"] += 1
    if changed:
        st.nontrivial += 1
    if variant == "unallocated":
        fill_unallocated(mod)
    asm = x["riscv_code"](mod)
    wit["after_asm"] = asm
    st.executions += 1
    try:
        after = run_text(asm, inputs)
    except (V.AsmError, V.ExecError) as e:
        p = asm_problem(st, e)
        if p[0] == "unallocated-register-in-output":
            v = "allocated" if variant != "unallocated" else variant
            st.violate(f"C22|canonicalize|{v}|{key}|introduces-unallocated-register",
                       f"canonicalize on {variant} `{key}`: {p[1]}", wit)
            st.outcomes["canon:introduces-unallocated-register"] += 1
        else:
            st.violate(f"C22|canonicalize|{variant}|{key}|{p[0]}", f"canonicalize on {variant} `{key}`: {p[1]}", wit)
            st.outcomes["canon:asm-does-not-execute"] += 1
        return
    except V.Unmodelled as e:
        asm_problem(st, e)
        return
    for (a, b), r0, r1 in zip(inputs, before, after):
        st.evaluations += 1
        g0, g1 = (r0[1], r1[1]) if ret_float else (r0[0], r1[0])
        if g0 != g1:
            st.violate(f"C22|canonicalize|{variant}|{key}|wrong-result",
                       f"canonicalize on {variant} `{key}`: result {g1:#x} after, {g0:#x} before (a0={a}, a1={b})",
                       {**wit, "args": [a, b], "before": g0, "after": g1})
            st.outcomes["canon:wrong-result"] += 1
            break
    else:
        st.outcomes["canon:results-agree"] += 1
    if sample:
        st.sample({"snippet": key, "variant": variant, "after_asm": asm.splitlines()[2:]})


def live_nodes(nodes, ret: int) -> set:
    live, todo = set(), [ret] + [i for i, n in enumerate(nodes) if n[0] == "store"]
    while todo:
        i = todo.pop()
        if i not in live:
            live.add(i)
            todo.extend(node_operands(nodes[i]))
    return live


def prune(nodes, ret: int):
    """drop dead nodes (the two argument nodes stay) and renumber"""
    live = live_nodes(nodes, ret) | {0, 1}
    remap, out = {}, []
    for i, n in enumerate(nodes):
        if i in live:
            remap[i] = len(out)
            n = list(n)
            k = n[0]
            pos = {"mv": [1], "fcvt.d.w": [1], "fmv.w.x": [1], "fmv.x.w": [1], "fmv.s": [1], "fmv.d": [1], "rr": [2, 3], "frr": [2, 3],
                   "ri": [2], "sh": [2], "load": [2], "store": [2, 3]}.get(k, [])
            for j in pos:
                n[j] = remap[n[j]]
            out.append(n)
    return out, remap[ret]


def gen_snippets(quick: bool):
    """yield (key, nodes, ret).  nodes 0 / 1 are always mv copies of the arguments a / b ("x" values)."""
    A, Bv = ["arg", 0], ["arg", 1]
    pre = [A, Bv, ["mv", 0], ["mv", 1]]          # 2 = va, 3 = vb
    VA, VB = 2, 3
    B = BOUNDARY

    def prog(extra, ret=None):
        nodes = pre + extra
        return prune(nodes, len(nodes) - 1 if ret is None else ret)

    # F1: single register-register op
    for name in RR_PATTERNED + RR_CONTROL:
        yield (f"{name}(x,y)", *prog([["rr", name, VA, VB]]))
        yield (f"{name}(x,x)same", *prog([["rr", name, VA, VA]]))
        yield (f"{name}(arg,arg)", *prog([["rr", name, 0, 1]]))
        yield (f"{name}(arg,arg)same", *prog([["rr", name, 0, 0]]))
        yield (f"{name}(0,0)same", *prog([["zero"], ["rr", name, 4, 4]]))
        yield (f"{name}(x,0)", *prog([["zero"], ["rr", name, VA, 4]]))
        yield (f"{name}(0,x)", *prog([["zero"], ["rr", name, 4, VA]]))
        for c in B:
            yield (f"{name}(x,c)", *prog([["li", c], ["rr", name, VA, 4]]))
            yield (f"{name}(c,x)", *prog([["li", c], ["rr", name, 4, VA]]))
            yield (f"{name}(c,c)same", *prog([["li", c], ["rr", name, 4, 4]]))
            yield (f"{name}(c,0)", *prog([["li", c], ["zero"], ["rr", name, 4, 5]]))
            yield (f"{name}(0,c)", *prog([["li", c], ["zero"], ["rr", name, 5, 4]]))
            if name in RR_PATTERNED:
                yield (f"{name}(mv(c),x)", *prog([["li", c], ["mv", 4], ["rr", name, 5, VA]]))
                yield (f"{name}(x,mv(c))", *prog([["li", c], ["mv", 4], ["rr", name, VA, 5]]))
                yield (f"mv({name}(x,c))", *prog([["li", c], ["rr", name, VA, 4], ["mv", 5]]))
            for d in B:
                if quick and name in RR_CONTROL and (c not in (0, -1, 31, 32, -2 ** 31) or d not in (0, 1, -1, 31, 32)):
                    continue
                yield (f"{name}(c,d)", *prog([["li", c], ["li", d], ["rr", name, 4, 5]]))
    # F2: single immediate op
    for name in RI_OPS:
        for imm in IMMS:
            yield (f"{name}(x)", *prog([["ri", name, VA, imm]]))
            yield (f"{name}(arg)", *prog([["ri", name, 0, imm]]))
            yield (f"{name}(0)", *prog([["zero"], ["ri", name, 4, imm]]))
            yield (f"mv({name}(x))", *prog([["ri", name, VA, imm], ["mv", 4]]))
            for c in B:
                yield (f"{name}(c)", *prog([["li", c], ["ri", name, 4, imm]]))
    # F3: single shift-immediate op
    for name in SH_OPS:
        for sh in SHAMTS:
            yield (f"{name}(x)", *prog([["sh", name, VA, sh]]))
            yield (f"{name}(0)", *prog([["zero"], ["sh", name, 4, sh]]))
            for c in B + (0x40000000, -0x40000001, 0x55555555):
                yield (f"{name}(c)", *prog([["li", c], ["sh", name, 4, sh]]))
    # li alone, mv chains
    for c in B:
        yield ("li", *prog([["li", c]]))
        yield ("mv(li)", *prog([["li", c], ["mv", 4]]))
        yield ("mv(mv(li))", *prog([["li", c], ["mv", 4], ["mv", 5]]))
    yield ("mv(x)", *prog([["mv", VA]]))
    yield ("mv(mv(x))", *prog([["mv", VA], ["mv", 4]]))
    yield ("mv(0)", *prog([["zero"], ["mv", 4]]))
    # F5: chains of immediate ops, inner result optionally used a second time
    ch_ops = [("ri", n) for n in ("addi", "xori", "andi", "ori")] + [("sh", n) for n in ("slli", "srli", "srai")]
    for (k1, n1), (k2, n2) in itertools.product(ch_ops, repeat=2):
        for i1 in (CH_IMMS if k1 == "ri" else CH_SH):
            for i2 in (CH_IMMS if k2 == "ri" else CH_SH):
                for src_name, src in (("x", None), ("c", 5), ("c", -2 ** 31), ("c", 2 ** 11)):
                    if quick and src_name == "c" and src != 5:
                        continue
                    head = [] if src is None else [["li", src]]
                    s = VA if src is None else 4
                    base = len(pre) + len(head)
                    yield (f"{n2}({n1}({src_name}))", *prog(head + [[k1, n1, s, i1], [k2, n2, base, i2]]))
                    yield (f"{n2}({n1}({src_name}))+keep",
                           *prog(head + [[k1, n1, s, i1], [k2, n2, base, i2], ["rr", "add", base, base + 1]]))
    # F6: register-register op on an addi / xori result
    for name in RR_PATTERNED:
        for inner in ("addi", "xori"):
            for imm in CH_IMMS + (4,):
                p = ["ri", inner, VA, imm]
                yield (f"{name}({inner}(x),x)", *prog([p, ["rr", name, 4, VA]]))
                yield (f"{name}(x,{inner}(x))", *prog([p, ["rr", name, VA, 4]]))
                yield (f"{name}({inner}(x),y)", *prog([p, ["rr", name, 4, VB]]))
                yield (f"{name}(x,x)same", *prog([p, ["rr", name, 4, 4]]))
                yield (f"{name}({inner}(x),0)", *prog([p, ["zero"], ["rr", name, 4, 5]]))
                for c in (1, -1, 2 ** 11 - 1, -2 ** 11, 2 ** 11):
                    yield (f"{name}({inner}(x),c)", *prog([p, ["li", c], ["rr", name, 4, 5]]))
                    yield (f"{name}(c,{inner}(x))", *prog([p, ["li", c], ["rr", name, 5, 4]]))
    # F7: sp relative store / load through addi
    for i1, i2 in itertools.product(MEM_OFFS, repeat=2):
        yield ("lw(addi(sp));sw(addi(sp))", *prog([["sp"], ["ri", "addi", 4, i1], ["store", "sw", 5, VA, i2],
                                                   ["ri", "addi", 4, i2], ["load", "lw", 7, i1]]))
        yield ("flw(addi(sp));fsw(addi(sp))", *prog([["sp"], ["fmv.w.x", VA], ["ri", "addi", 4, i1], ["store", "fsw", 6, 5, i2],
                                                     ["ri", "addi", 4, i2], ["load", "flw", 8, i1], ["fmv.x.w", 9]]))
        yield ("fld(addi(sp));fsd(addi(sp))", *prog([["sp"], ["fcvt.d.w", VA], ["ri", "addi", 4, i1], ["store", "fsd", 6, 5, i2],
                                                     ["ri", "addi", 4, i2], ["load", "fld", 8, i1]]))
        if -2048 <= i1 + i2 <= 2047:
            yield ("lw(sp);sw(addi(sp))", *prog([["sp"], ["ri", "addi", 4, i1], ["store", "sw", 5, VA, i2], ["load", "lw", 4, i1 + i2]]))
            yield ("lw(addi(sp));sw(sp)", *prog([["sp"], ["store", "sw", 4, VA, i1 + i2], ["ri", "addi", 4, i1], ["load", "lw", 6, i2]]))
    # F8: float moves, fmul.d + fadd.d
    yield ("fmv.s(f)", *prog([["fmv.w.x", VA], ["fmv.s", 4], ["fmv.x.w", 5]]))
    yield ("fmv.s(fmv.s(f))", *prog([["fmv.w.x", VA], ["fmv.s", 4], ["fmv.s", 5], ["fmv.x.w", 6]]))
    yield ("fmv.d(f)", *prog([["fcvt.d.w", VA], ["fmv.d", 4]]))
    yield ("fmv.d(fmv.d(f))", *prog([["fcvt.d.w", VA], ["fmv.d", 4], ["fmv.d", 5]]))
    for c1, c2 in itertools.product((False, True), repeat=2):
        tag = f"{'contract' if c1 else 'strict'},{'contract' if c2 else 'strict'}"
        head = [["fcvt.d.w", VA], ["fcvt.d.w", VB], ["li", 3], ["fcvt.d.w", 6]]        # 4 = fa, 5 = fb, 7 = 3.0
        yield (f"fadd.d(fmul.d,z)[{tag}]", *prog(head + [["frr", "fmul.d", 4, 5, c1], ["frr", "fadd.d", 8, 7, c2]]))
        yield (f"fadd.d(z,fmul.d)[{tag}]", *prog(head + [["frr", "fmul.d", 4, 5, c1], ["frr", "fadd.d", 7, 8, c2]]))
        yield (f"fadd.d(fmul.d,fmul.d)same[{tag}]", *prog(head + [["frr", "fmul.d", 4, 5, c1], ["frr", "fadd.d", 8, 8, c2]]))
        yield (f"fadd.d(fmul.d,z)+keep[{tag}]", *prog(head + [["frr", "fmul.d", 4, 5, c1], ["frr", "fadd.d", 8, 7, c2], ["frr", "fsub.d", 9, 8, False]]))


def sig_key(key: str) -> str:
    """operand classes of the signature: x = run time value (argument or copy of it), c = known constant (li, zero, mv of li)"""
    return key.replace("(arg", "(x").replace(",arg", ",x").replace("mv(c)", "c").replace("(0", "(c").replace(",0", ",c")


def _canon_shard(task) -> Stats:
    _, quick, lo, hi, seed = task
    st = Stats()
    for idx, (key, nodes, ret) in enumerate(itertools.islice(gen_snippets(quick), lo, hi), lo):
        unalloc_wrong = False
        for variant in VARIANTS:
            sub = Stats()
            check_snippet(sub, key, nodes, ret, variant, (idx + seed) % 1499 == 0 and variant == "allocated-inplace")
            wrong = [s for s in sub.violations if s.endswith("|wrong-result")]
            if variant == "unallocated":
                unalloc_wrong = bool(wrong)
            elif unalloc_wrong:
                # the rewrite is already wrong on SSA values: not a separate finding for the allocated forms
                for s in wrong:
                    del sub.violations[s]
            st.merge(sub)
    return st


# ======================================================================================
# run / replay
# ======================================================================================
def _task(task) -> Stats:
    return {"int": _int_shard, "fixed": _fixed_shard, "prologue": _prologue_shard, "canon": _canon_shard,
            "perm": _perm_shard}[task[0]](task)


def _count(gen) -> int:
    return sum(1 for _ in gen)


def run(ctx):
    q = ctx.quick
    tasks = []
    n_int = _count(gen_int_programs(q))
    n_fixed = len(fixed_programs(q))
    n_pro = _count(gen_prologue(q))
    n_canon = _count(gen_snippets(q))
    n_perm = _count(gen_perms(q))
    for kind, n, step in (("int", n_int, 150), ("fixed", n_fixed, 6), ("prologue", n_pro, 40), ("canon", n_canon, 250),
                          ("perm", n_perm, 40)):
        for lo in range(0, n, step):
            tasks.append((kind, q, lo, min(n, lo + step), ctx.seed))
    # interleave the kinds so that slow shards do not pile up at the end
    tasks.sort(key=lambda t: (t[2], t[0]))
    for _, st in pmap(_task, tasks):
        ctx.merge(st)
    ctx.bounds = {
        "pipeline": PIPELINE,
        "int_programs": n_int,
        "int_ops": list(BIN),
        "int_program_shapes": ("1 op: operands from {a,b}+12 boundary constants; 2 ops: one argument + constants "
                               f"{list(C_QUICK2)} and (a,b) without constants" if q else
                               "1 op: operands from {a,b}+12 boundary constants; 2 ops: two arguments + constants "
                               f"{list(C_THOROUGH2)}; 3 ops over {list(BIN3)}: one argument + constants {list(C_THOROUGH3)}"),
        "fixed_programs": n_fixed,
        "prologue_programs": n_pro,
        "argument_permutation_programs": n_perm,
        "canonicalization_snippets": n_canon,
        "canonicalization_variants": list(VARIANTS),
        "inputs_per_integer_argument": list(BOUNDARY),
        "loop_bound_inputs": list(LOOPV),
        "float_values_per_argument": len(F32_VALUES),
    }
    ctx.rule = ("states = programs (pipeline part: generated func.func / fixed family / prologue family members; canonicalization "
                "part: snippet x register form); transitions = (program, input) pairs + canonicalize applications; executions = "
                "emitted texts executed on the RV32 model against the reference (source poison/UB inputs excluded); "
                "non-trivial = a lowered program whose run takes more than 6 instructions or returns something else than 0/1, a "
                "prologue member that really saves a register, a snippet that canonicalize rewrote")
    ctx.assumptions = ["mc/rvmodel.py implements RV32IMFD + pseudo instructions (self test: python -m mc.rvmodel)",
                       "mc/refsem.py implements the MLIR semantics with index = 32 bit",
                       "frm = RNE at function entry; f registers are 64 bit with NaN-boxed singles",
                       "an i1 result lives in bit 0 of a0",
                       "a raising pipeline stage / failing verifier is a reported failure, not a wrong result",
                       "snippets given one register per value are validly allocated (harness assignment)"]


def replay(rep) -> bool:
    w = rep["witness"]
    st = Stats()
    sig = rep["signature"]
    if w["kind"] == "pipeline":
        L = Lowered(w["text"], w.get("ref_text"))
        if L.status != "ok":
            return True
        blame = sig.split("|")[2]
        run_inputs(st, L, blame, [[a] for a in w["args"]] if w["args"] else [[0]] * len(L.in_types))
        # blame re-attribution happens in the explorer only: accept any pipeline violation of the same kind
        kind = sig.split("|", 2)[2] if sig.endswith("wrong-result") else None
        if kind and any(s.endswith("wrong-result") for s in st.violations):
            return False
        return sig not in st.violations
    if w["kind"] == "perm":
        check_perm(st, w["n_int"], tuple(w["map_int"]), w["n_flt"], tuple(w["map_flt"]), w["fwidth"])
        return sig not in st.violations
    if w["kind"] == "prologue":
        check_prologue(st, w["text"], [tuple(w["args"])] if "args" in w else PRO_INPUTS)
        return sig not in st.violations
    check_snippet(st, w["key"], w["nodes"], w["ret"], w["variant"])
    return sig not in st.violations
