"""C23 — the LLVM backend emits valid LLVM IR with the source semantics.

Bounded-exhaustive enumeration of llvm-dialect programs (written as MLIR text, parsed and verified by
xDSL), each translated with `xdsl.backend.llvm.convert.convert_module`, printed, handed to LLVM
(`llvmlite.binding.parse_assembly` + `verify`), MCJIT-compiled and executed natively on a boundary input
set.  The oracle is the reference LLVM semantics in THIS file (it never looks at xDSL IR objects, only at
the program description the MLIR text was printed from): two's-complement integers, UB for division by
zero / INT_MIN / -1, poison for oversized shifts and violated nsw/nuw/exact/disjoint/nneg flags, IEEE-754
binary32/binary64 arithmetic, icmp/fcmp predicate tables, a byte-addressed memory model for
alloca/load/store/getelementptr, block arguments as parallel phi assignments, calls.
Inputs whose reference result is UB / poison / unspecified (NaN payloads, undef) are EXCLUDED (and never
executed natively); results are compared bit-exactly (any NaN equals any NaN for float results).

Families
  sl1/sl2/sl3  straight-line functions with 1..3 ops over every scalar converter
               (operands: earlier results or up to 3 arguments; every result is used; last result returned)
  cfg          branches with block arguments -> phi nodes (diamonds, loops with back edges, swaps, layouts)
  mem          alloca / load / store / getelementptr (constant and dynamic indices) / ptrtoint / inttoptr
  call         llvm.call between generated functions, llvm.call_intrinsic
  misc         globals + addressof, zero / undef + insertvalue / extractvalue, vectors (insertelement,
               shufflevector, dense constants, vector.reduce, masked.store), libm-backed intrinsics
               (tolerance compare), x86 inline asm, several functions of one module sharing intrinsics
The set of llvm ops that `convert_op` dispatches on is read from its source (match statement + the module
level tables); ops that no generated program drives are reported as uncovered.
"""
from __future__ import annotations

import itertools
import json
import math
import platform
import re
import struct
from fractions import Fraction

from mc.pool import kmap
from mc.stats import Stats

# ======================================================================================
# types
# ======================================================================================
INT_W = {"i1": 1, "i8": 8, "i32": 32, "i64": 64}
FLT_W = {"f32": 32, "f64": 64}
INTS = ("i1", "i8", "i32", "i64")
FLTS = ("f32", "f64")
SCALARS = INTS + FLTS
PTR = "!llvm.ptr"

_ARR_RE = re.compile(r"^!llvm\.array<(\d+) x (.+)>$")
_STRUCT_RE = re.compile(r"^!llvm\.struct<\((.+)\)>$")
_VEC_RE = re.compile(r"^vector<(\d+)x(\w+)>$")


def is_int(t) -> bool:
    return t in INT_W


def is_flt(t) -> bool:
    return t in FLT_W


def scalar_bits(t: str) -> int:
    return INT_W[t] if t in INT_W else FLT_W[t]


def size_align(t: str) -> tuple[int, int]:
    """Size / ABI alignment of a type under LLVM's default data layout (natural alignment)."""
    if t in INT_W:
        s = max(1, INT_W[t] // 8)
        return s, s
    if t in FLT_W:
        return FLT_W[t] // 8, FLT_W[t] // 8
    if t == PTR:
        return 8, 8
    m = _ARR_RE.match(t)
    if m:
        s, a = size_align(m.group(2))
        return int(m.group(1)) * s, a
    m = _STRUCT_RE.match(t)
    if m:
        off, al = 0, 1
        for f in m.group(1).split(", "):
            s, a = size_align(f)
            off = (off + a - 1) // a * a + s
            al = max(al, a)
        return (off + al - 1) // al * al, al
    m = _VEC_RE.match(t)
    if m:
        s, _ = size_align(m.group(2))
        n = int(m.group(1)) * s
        return n, n
    raise ValueError(f"size of {t}")


def struct_fields(t: str) -> list[str]:
    m = _STRUCT_RE.match(t)
    assert m, t
    return m.group(1).split(", ")


def field_offset(t: str, k: int) -> tuple[int, str]:
    off = 0
    for i, f in enumerate(struct_fields(t)):
        s, a = size_align(f)
        off = (off + a - 1) // a * a
        if i == k:
            return off, f
        off += s
    raise IndexError(k)


def gep_offset(elem: str, idx: list[int]) -> int:
    off = idx[0] * size_align(elem)[0]
    cur = elem
    for i in idx[1:]:
        m = _ARR_RE.match(cur)
        if m:
            cur = m.group(2)
            off += i * size_align(cur)[0]
            continue
        o, cur = field_offset(cur, i)
        off += o
    return off


# ======================================================================================
# reference semantics: values
# ======================================================================================
class UB(Exception):
    """immediate undefined behaviour: the input is excluded and never executed."""


class RefError(Exception):
    """the reference cannot evaluate the program (harness bug)."""


class _Sent:
    __slots__ = ("n",)

    def __init__(self, n: str) -> None:
        self.n = n

    def __repr__(self) -> str:
        return self.n


POISON = _Sent("poison")     # poison / undef / unspecified bits: the input is excluded
ANYNAN = _Sent("anynan")     # a NaN produced by arithmetic: sign / payload unspecified


class Approx:
    """result of a libm-backed intrinsic: compared with a tolerance"""
    __slots__ = ("x",)

    def __init__(self, x: float) -> None:
        self.x = x


def mask(w: int) -> int:
    return (1 << w) - 1


def sx(bits: int, w: int) -> int:
    return bits - (1 << w) if bits >> (w - 1) else bits


# ---- floats ------------------------------------------------------------------------
def b2f(t: str, bits: int) -> float:
    if t == "f32":
        return struct.unpack("<f", struct.pack("<I", bits))[0]
    return struct.unpack("<d", struct.pack("<Q", bits))[0]


def f2b(t: str, x: float) -> int:
    """round a binary64 value to the format (RNE) and return the bit pattern"""
    if t == "f64":
        return struct.unpack("<Q", struct.pack("<d", x))[0]
    if x != x:
        return 0x7FC00000
    try:
        return struct.unpack("<I", struct.pack("<f", x))[0]
    except OverflowError:
        return 0x7F800000 if x > 0 else 0xFF800000


def is_nan(t: str, bits) -> bool:
    if bits is ANYNAN:
        return True
    if t == "f32":
        return (bits & 0x7F800000) == 0x7F800000 and (bits & 0x7FFFFF) != 0
    return (bits & 0x7FF0000000000000) == 0x7FF0000000000000 and (bits & 0xFFFFFFFFFFFFF) != 0


def sign_bit(t: str) -> int:
    return 1 << (FLT_W[t] - 1)


_FMT = {"f32": (24, -126, 127), "f64": (53, -1022, 1023)}


def round_fraction(t: str, q: Fraction) -> int:
    """exact rational -> nearest float of the format, ties to even; q != 0"""
    p, emin, emax = _FMT[t]
    neg = q < 0
    q = abs(q)
    e = q.numerator.bit_length() - q.denominator.bit_length()
    if Fraction(2) ** e > q:
        e -= 1
    e = max(e, emin)
    ulp = Fraction(2) ** (e - (p - 1))
    scaled = q / ulp
    n = scaled.numerator // scaled.denominator
    rem = scaled - n
    if rem > Fraction(1, 2) or (rem == Fraction(1, 2) and n & 1):
        n += 1
    val = n * ulp
    if val >= Fraction(2) ** (emax + 1):
        bits = f2b(t, math.inf)
    else:
        bits = f2b(t, float(val))       # exact: val is representable in the format, hence in binary64
    return bits | (sign_bit(t) if neg else 0)


def sitofp_bits(n: int, t: str) -> int:
    if n == 0:
        return 0
    return round_fraction(t, Fraction(n))


def farith(name: str, t: str, a, b):
    if a is POISON or b is POISON:
        return POISON
    if is_nan(t, a) or is_nan(t, b):
        return ANYNAN
    x, y = b2f(t, a), b2f(t, b)
    if name == "llvm.fadd":
        r = x + y
    elif name == "llvm.fsub":
        r = x - y
    elif name == "llvm.fmul":
        r = x * y
    elif name == "llvm.fdiv":
        if y == 0:
            if x == 0:
                return ANYNAN
            neg = (math.copysign(1, x) < 0) != (math.copysign(1, y) < 0)
            r = -math.inf if neg else math.inf
        elif math.isinf(x) and math.isinf(y):
            return ANYNAN
        else:
            r = x / y
    elif name == "llvm.frem":
        if math.isinf(x) or y == 0:
            return ANYNAN
        r = x if math.isinf(y) else math.fmod(x, y)
        if r == 0:
            r = math.copysign(0.0, x)
    else:
        raise RefError(name)
    if r != r:
        return ANYNAN
    return f2b(t, r)    # binary64 result rounded once more: innocuous for + - * / at p=24 (53 >= 2p+2)


def fma_bits(t: str, a, b, c):
    if POISON in (a, b, c):
        return POISON
    if is_nan(t, a) or is_nan(t, b) or is_nan(t, c):
        return ANYNAN
    x, y, z = b2f(t, a), b2f(t, b), b2f(t, c)
    if math.isinf(x) or math.isinf(y):
        if x == 0 or y == 0:
            return ANYNAN
        pneg = (x < 0) != (y < 0)
        if math.isinf(z) and (z < 0) != pneg:
            return ANYNAN
        return f2b(t, -math.inf if pneg else math.inf)
    if math.isinf(z):
        return c
    pneg = (math.copysign(1, x) < 0) != (math.copysign(1, y) < 0)
    q = Fraction(x) * Fraction(y) + Fraction(z)
    if q == 0:
        if x == 0 or y == 0:
            zneg = math.copysign(1, z) < 0
            if z == 0:
                return sign_bit(t) if (pneg and zneg) else 0
            return c
        return 0            # exact cancellation of non-zero terms: +0 under round-to-nearest
    return round_fraction(t, q)


_FCMP = {
    "_false": lambda u, x, y: False,
    "oeq": lambda u, x, y: not u and x == y,
    "ogt": lambda u, x, y: not u and x > y,
    "oge": lambda u, x, y: not u and x >= y,
    "olt": lambda u, x, y: not u and x < y,
    "ole": lambda u, x, y: not u and x <= y,
    "one": lambda u, x, y: not u and x != y,
    "ord": lambda u, x, y: not u,
    "ueq": lambda u, x, y: u or x == y,
    "ugt": lambda u, x, y: u or x > y,
    "uge": lambda u, x, y: u or x >= y,
    "ult": lambda u, x, y: u or x < y,
    "ule": lambda u, x, y: u or x <= y,
    "une": lambda u, x, y: u or x != y,
    "uno": lambda u, x, y: u,
    "_true": lambda u, x, y: True,
}
FCMP_PREDS = tuple(_FCMP)

_ICMP = {
    "eq": lambda a, b, sa, sb: a == b,
    "ne": lambda a, b, sa, sb: a != b,
    "slt": lambda a, b, sa, sb: sa < sb,
    "sle": lambda a, b, sa, sb: sa <= sb,
    "sgt": lambda a, b, sa, sb: sa > sb,
    "sge": lambda a, b, sa, sb: sa >= sb,
    "ult": lambda a, b, sa, sb: a < b,
    "ule": lambda a, b, sa, sb: a <= b,
    "ugt": lambda a, b, sa, sb: a > b,
    "uge": lambda a, b, sa, sb: a >= b,
}
ICMP_PREDS = tuple(_ICMP)

OVERFLOW_OPS = ("llvm.add", "llvm.sub", "llvm.mul", "llvm.shl")
EXACT_OPS = ("llvm.udiv", "llvm.sdiv", "llvm.lshr", "llvm.ashr")
PLAIN_OPS = ("llvm.urem", "llvm.srem", "llvm.and", "llvm.xor")
INT_BIN = OVERFLOW_OPS + EXACT_OPS + PLAIN_OPS + ("llvm.or",)
DIV_OPS = ("llvm.udiv", "llvm.sdiv", "llvm.urem", "llvm.srem")
FLT_BIN = ("llvm.fadd", "llvm.fsub", "llvm.fmul", "llvm.fdiv", "llvm.frem")
FLT_UN_EXACT = ("llvm.fneg", "llvm.intr.fabs", "llvm.intr.ceil", "llvm.intr.floor", "llvm.intr.sqrt")
FLT_UN_APPROX = {"llvm.intr.exp": math.exp, "llvm.intr.exp2": lambda x: math.exp2(x), "llvm.intr.log": math.log,
                 "llvm.intr.log2": math.log2, "llvm.intr.sin": math.sin, "llvm.intr.cos": math.cos}
FLT_BIN_INTR = ("llvm.intr.copysign", "llvm.intr.maxnum", "llvm.intr.minnum")
CASTS = ("llvm.trunc", "llvm.zext", "llvm.sext", "llvm.bitcast", "llvm.fpext", "llvm.sitofp")


def int_bin(name: str, var: str, w: int, a, b):
    if a is POISON or b is POISON:
        if name in DIV_OPS:
            raise UB("division on poison")
        return POISON
    m = mask(w)
    flags = () if var == "none" else var.split(",")
    sa, sb = sx(a, w), sx(b, w)
    smin, smax = -(1 << (w - 1)), (1 << (w - 1)) - 1
    if name == "llvm.add":
        if ("nsw" in flags and not smin <= sa + sb <= smax) or ("nuw" in flags and a + b > m):
            return POISON
        return (a + b) & m
    if name == "llvm.sub":
        if ("nsw" in flags and not smin <= sa - sb <= smax) or ("nuw" in flags and a < b):
            return POISON
        return (a - b) & m
    if name == "llvm.mul":
        if ("nsw" in flags and not smin <= sa * sb <= smax) or ("nuw" in flags and a * b > m):
            return POISON
        return (a * b) & m
    if name == "llvm.udiv":
        if b == 0:
            raise UB("udiv by zero")
        if "exact" in flags and a % b:
            return POISON
        return a // b
    if name == "llvm.urem":
        if b == 0:
            raise UB("urem by zero")
        return a % b
    if name in ("llvm.sdiv", "llvm.srem"):
        if b == 0:
            raise UB("signed division by zero")
        if sa == smin and sb == -1:
            raise UB("signed division overflow")
        q = abs(sa) // abs(sb)
        if (sa < 0) != (sb < 0):
            q = -q
        r = sa - q * sb
        if name == "llvm.srem":
            return r & m
        if "exact" in flags and r:
            return POISON
        return q & m
    if name == "llvm.shl":
        if b >= w:
            return POISON
        r = (a << b) & m
        if "nuw" in flags and (a << b) > m:
            return POISON
        if "nsw" in flags and (sx(r, w) >> b) != sa:
            return POISON
        return r
    if name == "llvm.lshr":
        if b >= w:
            return POISON
        if "exact" in flags and a & mask(b):
            return POISON
        return a >> b
    if name == "llvm.ashr":
        if b >= w:
            return POISON
        if "exact" in flags and a & mask(b):
            return POISON
        return (sa >> b) & m
    if name == "llvm.and":
        return a & b
    if name == "llvm.or":
        if "disjoint" in flags and a & b:
            return POISON
        return a | b
    if name == "llvm.xor":
        return a ^ b
    raise RefError(name)


def cast(name: str, var: str, s: str, t: str, a):
    if a is POISON:
        return POISON
    flags = () if var == "none" else var.split(",")
    if name == "llvm.trunc":
        ws, wt = INT_W[s], INT_W[t]
        r = a & mask(wt)
        if "nuw" in flags and a >> wt:
            return POISON
        if "nsw" in flags and sx(r, wt) != sx(a, ws):
            return POISON
        return r
    if name == "llvm.zext":
        if "nneg" in flags and a >> (INT_W[s] - 1):
            return POISON
        return a
    if name == "llvm.sext":
        return sx(a, INT_W[s]) & mask(INT_W[t])
    if name == "llvm.bitcast":
        if a is ANYNAN:
            return ANYNAN if is_flt(t) else POISON      # payload of an arithmetic NaN is unspecified
        return a
    if name == "llvm.fpext":
        if is_nan(s, a):
            return ANYNAN
        return f2b(t, b2f(s, a))
    if name == "llvm.sitofp":
        return sitofp_bits(sx(a, INT_W[s]), t)
    raise RefError(name)


def flt_unary(name: str, t: str, a):
    if a is POISON:
        return POISON
    sb = sign_bit(t)
    if name == "llvm.fneg":
        return ANYNAN if a is ANYNAN else a ^ sb
    if name == "llvm.intr.fabs":
        return ANYNAN if a is ANYNAN else a & ~sb
    if is_nan(t, a):
        return ANYNAN
    x = b2f(t, a)
    if name in FLT_UN_APPROX:
        try:
            return Approx(FLT_UN_APPROX[name](x))
        except (ValueError, OverflowError, ZeroDivisionError):
            return POISON           # domain / range edge of the libm function: not compared
    if math.isinf(x):
        if name == "llvm.intr.sqrt" and x < 0:
            return ANYNAN
        return a
    if name == "llvm.intr.sqrt":
        if x < 0:
            return ANYNAN
        if x == 0:
            return a
        return f2b(t, math.sqrt(x))
    if name in ("llvm.intr.ceil", "llvm.intr.floor"):
        r = float(math.ceil(x) if name == "llvm.intr.ceil" else math.floor(x))
        if r == 0:
            r = math.copysign(0.0, x)
        return f2b(t, r)
    raise RefError(name)


def flt_bin_intr(name: str, t: str, a, b):
    if a is POISON or b is POISON:
        return POISON
    sb = sign_bit(t)
    if name == "llvm.intr.copysign":
        if b is ANYNAN:
            return POISON           # sign of an arithmetic NaN is unspecified
        if a is ANYNAN:
            return ANYNAN
        return (a & ~sb) | (b & sb)
    if name == "llvm.intr.pow":
        if is_nan(t, a) or is_nan(t, b):
            return POISON
        try:
            return Approx(math.pow(b2f(t, a), b2f(t, b)))
        except (ValueError, OverflowError, ZeroDivisionError):
            return POISON
    # maxnum / minnum
    if a is ANYNAN or b is ANYNAN:
        return POISON
    na, nb = is_nan(t, a), is_nan(t, b)
    quiet = 1 << (FLT_W[t] - (10 if t == "f32" else 13))
    if (na and not a & quiet) or (nb and not b & quiet):
        return POISON               # signalling NaN: the result differs between LLVM versions
    if na and nb:
        return ANYNAN
    if na:
        return b
    if nb:
        return a
    x, y = b2f(t, a), b2f(t, b)
    if x == y:
        return a if a == b else POISON      # +0 / -0: either may be returned
    if name == "llvm.intr.maxnum":
        return a if x > y else b
    return a if x < y else b


# ======================================================================================
# reference semantics: memory and the interpreter
# ======================================================================================
# An op is a list [res, name, variant, tys, operands, extra]; tys = operand types + [result type].
# A pointer is ("p", allocation id, byte offset); ("null",) is the null pointer; ("pi", ptr) is the
# integer obtained from ptrtoint (only inttoptr understands it).
class Mem:
    def __init__(self) -> None:
        self.allocs: list[list] = []

    def alloc(self, nbytes: int, init=None) -> tuple:
        self.allocs.append(list(init) if init is not None else [None] * nbytes)
        return ("p", len(self.allocs) - 1, 0)

    def _cells(self, ptr, n: int) -> tuple[list, int]:
        if ptr is POISON or not isinstance(ptr, tuple) or ptr[0] != "p":
            raise UB("access through an invalid pointer")
        cells = self.allocs[ptr[1]]
        if cells is None or ptr[2] < 0 or ptr[2] + n > len(cells):
            raise UB("out-of-bounds access")
        return cells, ptr[2]

    def store(self, t: str, v, ptr) -> None:
        n = size_align(t)[0]
        cells, off = self._cells(ptr, n)
        if v is POISON:
            cells[off:off + n] = ["P"] * n
        elif v is ANYNAN:
            cells[off:off + n] = [("N", k, t) for k in range(n)]
        elif isinstance(v, tuple):
            raise RefError("pointer store")
        else:
            cells[off:off + n] = list(v.to_bytes(n, "little"))

    def load(self, t: str, ptr):
        n = size_align(t)[0]
        cells, off = self._cells(ptr, n)
        cs = cells[off:off + n]
        if all(isinstance(c, int) for c in cs):
            v = int.from_bytes(bytes(cs), "little")
            if t == "i1" and v > 1:
                return POISON
            return v
        if is_flt(t) and all(isinstance(c, tuple) and c == ("N", k, t) for k, c in enumerate(cs)):
            return ANYNAN
        return POISON               # uninitialised / poison / partially unspecified bytes


def agg_fill(t: str, leaf):
    """a value of type t whose scalar leaves are all `leaf` (0 -> zero / null, POISON -> undef)"""
    if _STRUCT_RE.match(t):
        return [agg_fill(f, leaf) for f in struct_fields(t)]
    m = _ARR_RE.match(t)
    if m:
        return [agg_fill(m.group(2), leaf) for _ in range(int(m.group(1)))]
    if _VEC_RE.match(t):
        return [leaf] * _vec(t)[0]
    if t == PTR and leaf == 0:
        return ("null",)
    return leaf


def agg_set(agg, pos, val):
    agg = list(agg)
    agg[pos[0]] = val if len(pos) == 1 else agg_set(agg[pos[0]], pos[1:], val)
    return agg


def operand_types(o) -> list:
    return o[3][:-1]


def result_type(o):
    return o[3][-1]


def _vec(t: str) -> tuple[int, str]:
    m = _VEC_RE.match(t)
    assert m, t
    return int(m.group(1)), m.group(2)


def sem_op(o, v: list, mem: Mem, prog, glob: dict, depth: int):
    """value of the result of a non-terminator op; v = operand values"""
    _, name, var, tys, _, x = o
    if name in INT_BIN:
        return int_bin(name, var, INT_W[tys[0]], v[0], v[1])
    if name in FLT_BIN:
        return farith(name, tys[0], v[0], v[1])
    if name == "llvm.icmp":
        if v[0] is POISON or v[1] is POISON:
            return POISON
        w = INT_W[tys[0]]
        return int(_ICMP[var](v[0], v[1], sx(v[0], w), sx(v[1], w)))
    if name == "llvm.fcmp":
        if v[0] is POISON or v[1] is POISON:
            return POISON
        t = tys[0]
        u = is_nan(t, v[0]) or is_nan(t, v[1])
        xx, yy = (0.0, 0.0) if u else (b2f(t, v[0]), b2f(t, v[1]))
        return int(_FCMP[var](u, xx, yy))
    if name in CASTS:
        return cast(name, var, tys[0], tys[1], v[0])
    if name == "llvm.select":
        if v[0] is POISON:
            return POISON
        return v[1] if v[0] else v[2]
    if name == "llvm.mlir.constant":
        return list(x) if isinstance(x, (list, tuple)) else x
    if name in FLT_UN_EXACT or name in FLT_UN_APPROX:
        return flt_unary(name, tys[0], v[0])
    if name in FLT_BIN_INTR or name == "llvm.intr.pow":
        return flt_bin_intr(name, tys[0], v[0], v[1])
    if name == "llvm.intr.fma":
        return fma_bits(tys[0], v[0], v[1], v[2])
    if name == "llvm.alloca":
        if v[0] is POISON:
            raise UB("alloca of poison")
        return mem.alloc(v[0] * size_align(x["elem"])[0])
    if name == "llvm.load":
        return mem.load(tys[1], v[0])
    if name == "llvm.store":
        mem.store(tys[0], v[0], v[1])
        return None
    if name == "llvm.getelementptr":
        dyn = iter(zip(v[1:], tys[1:-1]))
        idx = []
        for i in x["idx"]:
            if i == "s":
                val, t = next(dyn)
                if val is POISON:
                    return POISON
                idx.append(sx(val, INT_W[t]))
            else:
                idx.append(i)
        p = v[0]
        if p is POISON or p[0] != "p":
            return POISON
        return ("p", p[1], p[2] + gep_offset(x["elem"], idx))
    if name == "llvm.ptrtoint":
        if v[0] is POISON:
            return POISON
        if v[0] == ("null",):
            return 0
        return ("pi", v[0]) if tys[1] == "i64" else POISON
    if name == "llvm.inttoptr":
        if isinstance(v[0], tuple) and v[0][0] == "pi":
            return v[0][1]
        return POISON               # an integer without provenance: any access is UB
    if name == "llvm.mlir.zero":
        return agg_fill(tys[0], 0)
    if name == "llvm.mlir.undef":
        return agg_fill(tys[0], POISON)
    if name == "llvm.insertvalue":
        return agg_set(v[1], x["pos"], v[0])
    if name == "llvm.extractvalue":
        r = v[0]
        for k in x["pos"]:
            r = r[k]
        return r
    if name == "llvm.insertelement":
        if v[2] is POISON or v[2] >= len(v[1]):
            return [POISON] * len(v[1])
        vec = list(v[1])
        vec[v[2]] = v[0]
        return vec
    if name == "llvm.shufflevector":
        both = list(v[0]) + list(v[1])
        return [POISON if k < 0 else both[k] for k in x["mask"]]
    if name == "llvm.bitcast.vec":      # vector <-> integer, little endian lanes
        n, et = _vec(tys[0])
        w = scalar_bits(et)
        r = 0
        for k, e in enumerate(v[0]):
            if e is POISON or e is ANYNAN:
                return POISON
            r |= e << (k * w)
        return r
    if name.startswith("llvm.intr.vector.reduce."):
        t = tys[0]
        acc = v[0]
        for e in v[1]:
            acc = farith("llvm.fadd" if name.endswith("fadd") else "llvm.fmul", t, acc, e)
        return acc
    if name == "llvm.intr.masked.store":
        n, et = _vec(tys[0])
        es = size_align(et)[0]
        for k in range(n):
            if v[2][k] is POISON:
                raise UB("poison mask")
            if v[2][k]:
                p = v[1]
                mem.store(et, v[0][k], ("p", p[1], p[2] + k * es))
        return None
    if name == "llvm.mlir.addressof":
        return glob[x["global"]]
    if name == "llvm.call":
        callee = prog["callees"][x["callee"]]
        if depth > 300:
            raise RefError("call depth")
        return run_func(callee, v, mem, glob, depth + 1, prog["callees"])
    if name == "llvm.call_intrinsic":
        return call_intrinsic(x["intrin"], tys, v)
    if name == "llvm.inline_asm":
        return x86_asm(x, tys, v)
    raise RefError(f"no reference semantics for {name}")


def call_intrinsic(intrin: str, tys, v):
    if any(a is POISON for a in v):
        return POISON
    base = intrin.rsplit(".", 1)[0]
    t = tys[0]
    if base in ("llvm.smax", "llvm.smin", "llvm.umax", "llvm.umin"):
        w = INT_W[t]
        key = (lambda z: sx(z, w)) if base[5] == "s" else (lambda z: z)
        return max(v, key=key) if base.endswith("max") else min(v, key=key)
    if base == "llvm.ctpop":
        return bin(v[0]).count("1")
    if base == "llvm.bswap":
        return int.from_bytes(v[0].to_bytes(INT_W[t] // 8, "little"), "big")
    if base == "llvm.fabs":
        return flt_unary("llvm.intr.fabs", t, v[0])
    if base == "llvm.fma":
        return fma_bits(t, v[0], v[1], v[2])
    raise RefError(intrin)


def x86_asm(x, tys, v):
    """the two x86 templates the generator emits: out = tied input ($0) minus / plus the register input ($1)"""
    if any(a is POISON for a in v):
        return POISON
    w = INT_W[tys[0]]
    kind = x["kind"]                   # "sub": result = v[1] - v[0]; "mov": result = v[0]
    if kind == "sub":
        return (v[1] - v[0]) & mask(w)
    if kind == "mov":
        return v[0]
    raise RefError(kind)


def run_func(prog, args: list, mem: Mem, glob: dict, depth: int = 0, callees=None):
    if callees is not None and "callees" not in prog:
        prog = dict(prog, callees=callees)
    env = {f"a{i}": a for i, a in enumerate(args)}
    blocks = prog["blocks"]
    labels = {b[0]: i for i, b in enumerate(blocks)}
    bi = 0
    fuel = 20000
    mark = len(mem.allocs)
    try:
        while True:
            jumped = False
            for o in blocks[bi][2]:
                fuel -= 1
                if fuel < 0:
                    raise RefError("out of fuel")
                name = o[1]
                if name == "llvm.return":
                    return env[o[4][0]] if o[4] else None
                if name == "llvm.unreachable":
                    raise UB("unreachable executed")
                if name == "llvm.br":
                    dest, vals = o[5]["dest"], [env[a] for a in o[4]]
                elif name == "llvm.cond_br":
                    c = env[o[4][0]]
                    if c is POISON:
                        raise UB("branch on poison")
                    nt = o[5]["nt"]
                    if c:
                        dest, vals = o[5]["t"], [env[a] for a in o[4][1:1 + nt]]
                    else:
                        dest, vals = o[5]["e"], [env[a] for a in o[4][1 + nt:]]
                else:
                    r = sem_op(o, [env[a] for a in o[4]], mem, prog, glob, depth)
                    if o[0] is not None:
                        env[o[0]] = r
                    continue
                bi = labels[dest]
                for (an, _), val in zip(blocks[bi][1], vals):
                    env[an] = val
                jumped = True
                break
            if not jumped:
                raise RefError("block without terminator")
    finally:
        for k in range(mark, len(mem.allocs)):      # allocas die with the frame
            mem.allocs[k] = None


def run_ref(prog, args: list):
    """-> bits | ANYNAN | Approx | POISON ; raises UB"""
    mem = Mem()
    glob = {}
    for gname, gty, ginit in prog.get("globals", ()):
        n = size_align(gty)[0]
        if ginit is None:
            cells = None
        elif isinstance(ginit, str):
            cells = list(ginit.encode())
        elif isinstance(ginit, (list, tuple)):
            es = n // len(ginit)
            cells = [b for e in ginit for b in int(e).to_bytes(es, "little")]
        else:
            cells = list(int(ginit).to_bytes(n, "little"))
        glob[gname] = mem.alloc(n, cells)
    r = run_func(prog, list(args), mem, glob)
    if isinstance(r, (tuple, list)):
        raise RefError("aggregate / pointer returned")
    return r


# ======================================================================================
# MLIR text
# ======================================================================================
def const_text(t: str, bits) -> str:
    if isinstance(bits, (list, tuple)):
        n, et = _vec(t)
        if is_flt(et):
            return "dense<[" + ", ".join(repr(b2f(et, b)) for b in bits) + f"]> : {t}"
        return "dense<[" + ", ".join(str(sx(b, INT_W[et]) if INT_W[et] > 1 else b) for b in bits) + f"]> : {t}"
    if is_int(t):
        return f"{sx(bits, INT_W[t])} : {t}"
    return ("0x%08X" if t == "f32" else "0x%016X") % bits + f" : {t}"


def _succ_args(vals, tys) -> str:
    return f"({', '.join(vals)} : {', '.join(tys)})" if vals else ""


def op_text(o, fname: str = "") -> str:
    r, name, var, tys, a, x = o
    A = ["%" + s for s in a]
    lhs = f"%{r} = " if r is not None else ""
    if name in OVERFLOW_OPS:
        fl = "" if var == "none" else f" overflow<{var.replace(',', ', ')}>"
        return f"{lhs}{name} {A[0]}, {A[1]}{fl} : {tys[0]}"
    if name in EXACT_OPS or name == "llvm.or":
        fl = "" if var == "none" else f" {var}"
        return f"{lhs}{name}{fl} {A[0]}, {A[1]} : {tys[0]}"
    if name in PLAIN_OPS or name in FLT_BIN:
        return f"{lhs}{name} {A[0]}, {A[1]} : {tys[0]}"
    if name in ("llvm.icmp", "llvm.fcmp"):
        return f'{lhs}{name} "{var}" {A[0]}, {A[1]} : {tys[0]}'
    if name == "llvm.trunc":
        fl = "" if var == "none" else f" overflow<{var.replace(',', ', ')}>"
        return f"{lhs}{name} {A[0]}{fl} : {tys[0]} to {tys[1]}"
    if name == "llvm.zext":
        fl = "" if var == "none" else f" {var}"
        return f"{lhs}{name}{fl} {A[0]} : {tys[0]} to {tys[1]}"
    if name in ("llvm.sext", "llvm.bitcast", "llvm.fpext", "llvm.sitofp", "llvm.ptrtoint", "llvm.inttoptr"):
        return f"{lhs}{name} {A[0]} : {tys[0]} to {tys[1]}"
    if name == "llvm.bitcast.vec":
        return f"{lhs}llvm.bitcast {A[0]} : {tys[0]} to {tys[1]}"
    if name == "llvm.select":
        return f"{lhs}{name} {A[0]}, {A[1]}, {A[2]} : i1, {tys[1]}"
    if name == "llvm.mlir.constant":
        if var == "unsigned":
            return f"{lhs}{name}({x} : {tys[0]}) : {tys[0]}"
        return f"{lhs}{name}({const_text(tys[0], x)}) : {tys[0]}"
    if name in ("llvm.mlir.zero", "llvm.mlir.undef"):
        return f"{lhs}{name} : {tys[0]}"
    if name == "llvm.fneg":
        return f"{lhs}{name} {A[0]} : {tys[0]}"
    if name.startswith("llvm.intr.vector.reduce."):
        return f'{lhs}"{name}"({A[0]}, {A[1]}) <{{fastmathFlags = #llvm.fastmath<none>}}> : ({tys[0]}, {tys[1]}) -> {tys[2]}'
    if name == "llvm.intr.masked.store":
        return f"{name} {A[0]}, {A[1]}, {A[2]} {{alignment = {x['align']} : i32}} : {tys[0]}, {tys[2]} into !llvm.ptr"
    if name.startswith("llvm.intr."):
        return f"{lhs}{name}({', '.join(A)}) : ({', '.join(tys[:-1])}) -> {tys[-1]}"
    if name == "llvm.alloca":
        al = f" {{alignment = {x['align']} : i64}}" if x.get("align") else ""
        return f"{lhs}{name} {A[0]} x {x['elem']}{al} : ({tys[0]}) -> !llvm.ptr"
    if name == "llvm.load":
        al = f" {{alignment = {x['align']} : i64}}" if x and x.get("align") else ""
        return f"{lhs}{name} {A[0]}{al} : !llvm.ptr -> {tys[1]}"
    if name == "llvm.store":
        al = f" {{alignment = {x['align']} : i64}}" if x and x.get("align") else ""
        return f"{name} {A[0]}, {A[1]}{al} : {tys[0]}, !llvm.ptr"
    if name == "llvm.getelementptr":
        dyn = iter(A[1:])
        idx = ", ".join(next(dyn) if i == "s" else str(i) for i in x["idx"])
        ib = " inbounds" if x.get("inbounds") else ""
        return f"{lhs}{name}{ib} {A[0]}[{idx}] : ({', '.join(tys[:-1])}) -> !llvm.ptr, {x['elem']}"
    if name == "llvm.insertvalue":
        return f"{lhs}{name} {A[0]}, {A[1]}[{', '.join(str(k) for k in x['pos'])}] : {tys[1]}"
    if name == "llvm.extractvalue":
        return f"{lhs}{name} {A[0]}[{', '.join(str(k) for k in x['pos'])}] : {tys[0]}"
    if name == "llvm.insertelement":
        return f"{lhs}{name} {A[0]}, {A[1]}[{A[2]} : {tys[2]}] : {tys[1]}"
    if name == "llvm.shufflevector":
        return f"{lhs}{name} {A[0]}, {A[1]} [{', '.join(str(k) for k in x['mask'])}] : {tys[0]}"
    if name == "llvm.mlir.addressof":
        return f"{lhs}{name} @{fname}_{x['global']} : !llvm.ptr"
    if name == "llvm.call":
        rt = tys[-1]
        return f"{lhs}{name} @{fname}_{x['callee']}({', '.join(A)}) : ({', '.join(tys[:-1])}) -> {rt if rt else '()'}"
    if name == "llvm.call_intrinsic":
        return f'{lhs}{name} "{x["intrin"]}"({", ".join(A)}) : ({", ".join(tys[:-1])}) -> {tys[-1]}'
    if name == "llvm.inline_asm":
        d = f" asm_dialect = {x['dialect']}" if x.get("dialect") else ""
        return f'{lhs}{name}{d} "{x["asm"]}", "{x["cons"]}" {", ".join(A)} : ({", ".join(tys[:-1])}) -> {tys[-1]}'
    if name == "llvm.return":
        return f"{name} {A[0]} : {tys[0]}" if a else name
    if name == "llvm.unreachable":
        return name
    if name == "llvm.br":
        return f"{name} ^{x['dest']}{_succ_args(A, tys)}"
    if name == "llvm.cond_br":
        nt = x["nt"]
        return f"{name} {A[0]}, ^{x['t']}{_succ_args(A[1:1 + nt], tys[1:1 + nt])}, ^{x['e']}{_succ_args(A[1 + nt:], tys[1 + nt:])}"
    raise RefError(f"no text for {name}")


def func_text(prog, fname: str) -> str:
    out = []
    for gname, gty, ginit in prog.get("globals", ()):
        if ginit is None:
            init = "()"
        elif isinstance(ginit, str):
            init = f'("{ginit}")'
        elif isinstance(ginit, (list, tuple)):
            m = _ARR_RE.match(gty)
            init = f"(dense<[{', '.join(str(sx(e, INT_W[m.group(2)])) for e in ginit)}]> : tensor<{m.group(1)}x{m.group(2)}>)"
        else:
            init = f"({const_text(gty, ginit)})"
        out.append(f"  llvm.mlir.global internal @{fname}_{gname}{init} {{addr_space = 0 : i32}} : {gty}")
    funcs = [(fname, prog)]
    callees = [(f"{fname}_{k}", c) for k, c in prog.get("callees", {}).items()]
    funcs = callees + funcs if prog.get("callee_first", True) else funcs + callees
    for name, p in funcs:
        args = ", ".join(f"%a{i}: {t}" for i, t in enumerate(p["args"]))
        ret = f" -> {p['ret']}" if p["ret"] else ""
        out.append(f"  llvm.func @{name}({args}){ret} {{")
        for label, bargs, ops in p["blocks"]:
            if label is not None:
                ba = f"({', '.join(f'%{n}: {t}' for n, t in bargs)})" if bargs else ""
                out.append(f"  ^{label}{ba}:")
            for o in ops:
                out.append("    " + op_text(o, fname))
        out.append("  }")
    return "\n".join(out)


def module_text(progs, names) -> str:
    return "builtin.module {\n" + "\n".join(func_text(p, n) for p, n in zip(progs, names)) + "\n}\n"


# ======================================================================================
# program construction
# ======================================================================================
def mkop(res, name, var, tys, operands, extra=None) -> list:
    return [res, name, var, list(tys), list(operands), extra]


class PB:
    """tiny program builder; values are named v0, v1, ...; arguments a0, a1, ..."""

    def __init__(self, args, ret, sig: str, fam: str) -> None:
        self.p = {"fam": fam, "sig": sig, "args": list(args), "ret": ret, "blocks": [[None, [], []]]}
        self.cur = self.p["blocks"][0][2]
        self.n = 0

    def block(self, label: str, bargs=()) -> list[str]:
        self.p["blocks"].append([label, [[n, t] for n, t in bargs], []])
        self.cur = self.p["blocks"][-1][2]
        return [n for n, _ in bargs]

    def op(self, name, var, otys, rty, operands, extra=None):
        res = None
        if rty is not None:
            res = f"v{self.n}"
            self.n += 1
        self.cur.append(mkop(res, name, var, list(otys) + [rty], operands, extra))
        return res

    def const(self, t: str, bits):
        return self.op("llvm.mlir.constant", "-", [], t, [], bits)

    def ret(self, v=None, t=None):
        self.cur.append(mkop(None, "llvm.return", "-", [t] if v else [], [v] if v else []))
        return self.p

    def br(self, dest, vals=(), tys=()):
        self.cur.append(mkop(None, "llvm.br", "-", tys, vals, {"dest": dest}))

    def cond_br(self, c, t, tvals, ttys, e, evals, etys):
        self.cur.append(mkop(None, "llvm.cond_br", "-", ["i1"] + list(ttys) + list(etys), [c] + list(tvals) + list(evals),
                             {"t": t, "nt": len(tvals), "e": e}))

    def alloca(self, elem, count=1, cty="i32", align=None):
        c = self.const(cty, count)
        return self.op("llvm.alloca", "-", [cty], PTR, [c], {"elem": elem, "align": align})

    def store(self, t, v, p, align=None):
        self.op("llvm.store", "-", [t, PTR], None, [v, p], {"align": align})

    def load(self, t, p, align=None):
        return self.op("llvm.load", "-", [PTR], t, [p], {"align": align})

    def gep(self, elem, p, idx, dyn=(), dtys=(), inbounds=False):
        return self.op("llvm.getelementptr", "inbounds" if inbounds else "-", [PTR] + list(dtys), PTR, [p] + list(dyn),
                       {"elem": elem, "idx": list(idx), "inbounds": inbounds})


def prog_ops(prog):
    for c in prog.get("callees", {}).values():
        yield from prog_ops(c)
    for b in prog["blocks"]:
        yield from b[2]


# ---- boundary values ------------------------------------------------------------------
def int_values(t: str, mode: str) -> list[int]:
    w = INT_W[t]
    if w == 1:
        return [0, 1]
    m = mask(w)
    smax = m >> 1
    if mode == "small":
        return [0, 1, w - 1, smax, smax + 1, m]
    if w == 8 and mode == "full":
        return list(range(256))
    vals = [0, 1, 2, w - 1, w, smax - 1, smax, smax + 1, smax + 2, m - 1, m, 0x5555555555555555 & m, 0xA5A5A5A5A5A5A5A5 & m]
    if w >= 32:
        vals += [(1 << 24) + 1, (1 << 24) + 3, (-(1 << 24) - 1) & m]        # sitofp -> f32 rounding ties
    if w == 64:
        vals += [(1 << 53) + 1, (1 << 53) + 3, (-(1 << 53) - 1) & m, (1 << 40) + (1 << 16)]
    out = []
    for v in vals:
        if v not in out:
            out.append(v)
    return out


_F32 = [0x00000000, 0x80000000, 0x3F800000, 0xBF800000, 0x3FC00000, 0xC0200000, 0x40400000, 0x3DCCCCCD,
        0x7F800000, 0xFF800000, 0x7FC00000, 0x7F800001, 0x7F7FFFFF, 0x00000001, 0x00800000, 0x4B800001]
_F64 = [0x0000000000000000, 0x8000000000000000, 0x3FF0000000000000, 0xBFF0000000000000, 0x3FF8000000000000,
        0xC004000000000000, 0x4008000000000000, 0x3FB999999999999A, 0x7FF0000000000000, 0xFFF0000000000000,
        0x7FF8000000000000, 0x7FF0000000000001, 0x7FEFFFFFFFFFFFFF, 0x0000000000000001, 0x0010000000000000,
        0x4340000000000001]


def flt_values(t: str, mode: str) -> list[int]:
    full = _F32 if t == "f32" else _F64
    if mode == "small":
        return [full[i] for i in (0, 1, 4, 5, 8, 10, 12, 13)]
    return list(full)


def input_set(argtys: list) -> list[tuple]:
    n = len(argtys)
    mode = "full" if n <= 1 else ("pair" if n == 2 else "small")
    sets = []
    for t in argtys:
        if n >= 4 and t != "i1":
            vs = (int_values(t, "small") if is_int(t) else flt_values(t, "small"))[:4]
        else:
            vs = int_values(t, mode) if is_int(t) else flt_values(t, mode)
        sets.append(vs)
    return list(itertools.product(*sets))


def cval(t: str, k: int) -> int:
    vs = const_values(t)
    return vs[k % len(vs)]


def const_values(t: str) -> list[int]:
    if is_int(t):
        return int_values(t, "small") if INT_W[t] > 1 else [0, 1]
    full = _F32 if t == "f32" else _F64
    return [full[i] for i in (0, 1, 4, 7, 8, 9, 10, 12, 13)]


# ---- schemas of the scalar ops --------------------------------------------------------
# schema = (name, variant, operand types, result type, extra)
OVF_VARIANTS = ("none", "nsw", "nuw", "nsw,nuw")


def int_casts(ints) -> list[tuple]:
    out = []
    for s in ints:
        for t in ints:
            if INT_W[s] > INT_W[t]:
                out += [("llvm.trunc", v, (s,), t, None) for v in OVF_VARIANTS]
            elif INT_W[s] < INT_W[t]:
                out += [("llvm.zext", v, (s,), t, None) for v in ("none", "nneg")]
                out.append(("llvm.sext", "none", (s,), t, None))
    return out


def schemas(ints=INTS, flts=FLTS, level: str = "full") -> list[tuple]:
    """level: full | core (no constants of every boundary value, fewer flag / predicate variants)"""
    S: list[tuple] = []
    core = level in ("core", "tiny")
    if level == "tiny":
        return tiny_schemas(ints, flts)
    for t in ints:
        for name in OVERFLOW_OPS:
            for v in (("none", "nsw,nuw") if core else OVF_VARIANTS):
                S.append((name, v, (t, t), t, None))
        for name in EXACT_OPS:
            for v in ("none", "exact"):
                S.append((name, v, (t, t), t, None))
        for name in PLAIN_OPS:
            S.append((name, "none", (t, t), t, None))
        for v in ("none", "disjoint"):
            S.append(("llvm.or", v, (t, t), t, None))
        for p in (("eq", "slt", "ult", "sge", "ugt") if core else ICMP_PREDS):
            S.append(("llvm.icmp", p, (t, t), "i1", None))
        S.append(("llvm.bitcast", "none", (t,), t, None))
    for t in flts:
        for name in FLT_BIN:
            S.append((name, "none", (t, t), t, None))
        for p in (("oeq", "olt", "une", "uge", "ord") if core else FCMP_PREDS):
            S.append(("llvm.fcmp", p, (t, t), "i1", None))
        for name in FLT_UN_EXACT:
            S.append((name, "none", (t,), t, None))
        for name in FLT_BIN_INTR:
            S.append((name, "none", (t, t), t, None))
        S.append(("llvm.intr.fma", "none", (t, t, t), t, None))
    S += int_casts(ints)
    for i, f in (("i32", "f32"), ("i64", "f64")):
        if i in ints and f in flts:
            S.append(("llvm.bitcast", "none", (i,), f, None))
            S.append(("llvm.bitcast", "none", (f,), i, None))
    if "f32" in flts and "f64" in flts:
        S.append(("llvm.fpext", "none", ("f32",), "f64", None))
    for s in ints:
        for t in flts:
            S.append(("llvm.sitofp", "none", (s,), t, None))
    for t in tuple(ints) + tuple(flts):
        S.append(("llvm.select", "none", ("i1", t, t), t, None))
        for c in (const_values(t)[:3] if core else const_values(t)):
            S.append(("llvm.mlir.constant", "-", (), t, c))
        if not core and is_int(t) and INT_W[t] > 1:       # the same bit patterns spelled as unsigned literals
            S.append(("llvm.mlir.constant", "unsigned", (), t, mask(INT_W[t])))
            S.append(("llvm.mlir.constant", "unsigned", (), t, 1 << (INT_W[t] - 1)))
    return S


def tiny_schemas(ints, flts) -> list[tuple]:
    """the reduced op set of the 3-op programs"""
    S: list[tuple] = []
    for t in ints:
        if t == "i1":
            continue
        for name, v in (("llvm.add", "nsw,nuw"), ("llvm.sub", "none"), ("llvm.mul", "none"), ("llvm.shl", "none"),
                        ("llvm.lshr", "exact"), ("llvm.ashr", "none"), ("llvm.sdiv", "none"), ("llvm.urem", "none"),
                        ("llvm.and", "none"), ("llvm.or", "disjoint"), ("llvm.xor", "none")):
            S.append((name, v, (t, t), t, None))
        for p in ("eq", "slt", "ugt"):
            S.append(("llvm.icmp", p, (t, t), "i1", None))
        S.append(("llvm.select", "none", ("i1", t, t), t, None))
        S.append(("llvm.mlir.constant", "-", (), t, cval(t, 2)))
        S.append(("llvm.mlir.constant", "-", (), t, cval(t, 5)))
        if "i1" in ints:
            S += [("llvm.trunc", "none", (t,), "i1", None), ("llvm.zext", "none", ("i1",), t, None),
                  ("llvm.sext", "none", ("i1",), t, None)]
    for t in flts:
        for name in ("llvm.fadd", "llvm.fsub", "llvm.fmul", "llvm.fdiv", "llvm.fneg"):
            S.append((name, "none", (t, t) if name != "llvm.fneg" else (t,), t, None))
        for p in ("olt", "une"):
            S.append(("llvm.fcmp", p, (t, t), "i1", None))
        S.append(("llvm.select", "none", ("i1", t, t), t, None))
        S.append(("llvm.mlir.constant", "-", (), t, cval(t, 2)))
    return S


def operand_choices(otys, avail, argtys, maxargs):
    """all ways to pick operands: an available value of the right type or a NEW argument (introduced in order)"""
    def rec(k, chosen, args):
        if k == len(otys):
            yield list(chosen), list(args)
            return
        t = otys[k]
        for n, ty in avail:
            if ty == t:
                yield from rec(k + 1, chosen + [n], args)
        for i, ty in enumerate(args):
            if ty == t and i >= len(argtys):        # arguments introduced by this very op
                yield from rec(k + 1, chosen + [f"a{i}"], args)
        if len(args) < maxargs:
            yield from rec(k + 1, chosen + [f"a{len(args)}"], args + [t])
    yield from rec(0, [], list(argtys))


def sl_programs(k: int, first: list[tuple], rest: list[tuple], maxargs: int = 3):
    """straight-line programs with exactly k ops; the first op is drawn from `first`; every result is used"""
    def rec(ops, avail, argtys, unused):
        j = len(ops)
        for name, var, otys, rty, extra in (first if j == 0 else rest):
            full_avail = avail + [(f"a{i}", t) for i, t in enumerate(argtys)]
            for operands, nargs in operand_choices(otys, full_avail, argtys, maxargs):
                nun = [u for u in unused if u not in operands]
                if j == k - 1:
                    if nun:
                        continue
                elif len(nun) + 1 > 3 * (k - j - 1):
                    continue
                res = f"v{j}"
                o = mkop(res, name, var, list(otys) + [rty], operands, extra)
                if j == k - 1:
                    allops = ops + [o]
                    sig = "+".join(x[1] for x in allops) + "|" + "+".join(x[2] for x in allops)
                    yield {"fam": f"sl{k}", "sig": sig, "args": nargs, "ret": rty,
                           "blocks": [[None, [], allops + [mkop(None, "llvm.return", "-", [rty], [res])]]]}
                else:
                    yield from rec(ops + [o], avail + [(res, rty)], nargs, nun + [res])
    yield from rec([], [], [], [])


UNIT_OPS = INT_BIN + FLT_BIN + CASTS + FLT_UN_EXACT + FLT_BIN_INTR + tuple(FLT_UN_APPROX) + (
    "llvm.icmp", "llvm.fcmp", "llvm.select", "llvm.mlir.constant", "llvm.intr.fma", "llvm.intr.pow")


def is_unit_op(o) -> bool:
    return o[1] in UNIT_OPS and all(t in SCALARS for t in o[3])


def unit_prog(o) -> dict:
    otys = operand_types(o)
    rty = result_type(o)
    oo = mkop("v0", o[1], o[2], o[3], [f"a{i}" for i in range(len(otys))], o[5])
    return {"fam": "unit", "sig": f"{o[1]}|{o[2]}", "args": list(otys), "ret": rty,
            "blocks": [[None, [], [oo, mkop(None, "llvm.return", "-", [rty], ["v0"])]]]}


def is_unit_prog(p) -> bool:
    return len(p["blocks"]) == 1 and len(p["blocks"][0][2]) == 2 and not p.get("callees") and is_unit_op(p["blocks"][0][2][0])


# ---- control flow: block arguments -> phi nodes --------------------------------------
def _one(t: str) -> int:
    return 1 if is_int(t) else (0x3F800000 if t == "f32" else 0x3FF0000000000000)


def _bump(b: PB, t: str, v: str) -> str:
    """an injective, total change of a value: xor with 1 (ints) / fneg (floats)"""
    if is_int(t):
        return b.op("llvm.xor", "none", [t, t], t, [v, b.const(t, 1)])
    return b.op("llvm.fneg", "none", [t], t, [v])


def cfg_programs():
    for t in SCALARS:
        b = PB([t], t, "phi|br-one-pred", "cfg")
        b.br("b1", ["a0"], [t])
        (x,) = b.block("b1", [("x", t)])
        yield b.ret(x, t)

        b = PB(["i1", t, t], t, "phi|diamond", "cfg")
        b.cond_br("a0", "bt", ["a1"], [t], "be", ["a2"], [t])
        (x,) = b.block("bt", [("x", t)])
        b.br("bm", [_bump(b, t, x)], [t])
        (y,) = b.block("be", [("y", t)])
        b.br("bm", [y], [t])
        (z,) = b.block("bm", [("z", t)])
        yield b.ret(z, t)

        b = PB(["i1", t, t], t, "phi|triangle", "cfg")
        b.cond_br("a0", "bt", [], [], "bm", ["a2"], [t])
        b.block("bt")
        b.br("bm", [_bump(b, t, "a1")], [t])
        (z,) = b.block("bm", [("z", t)])
        yield b.ret(z, t)

        # both edges of one cond_br reach the same block with DIFFERENT arguments
        b = PB(["i1", t, t], t, "phi|cond_br-same-successor", "cfg")
        b.cond_br("a0", "bm", ["a1"], [t], "bm", ["a2"], [t])
        (z,) = b.block("bm", [("z", t)])
        yield b.ret(z, t)

        b = PB(["i1", t], t, "phi|cond_br-same-successor-same-args", "cfg")
        b.cond_br("a0", "bm", ["a1"], [t], "bm", ["a1"], [t])
        (z,) = b.block("bm", [("z", t)])
        yield b.ret(z, t)

        # two phis whose incoming values are crossed on one edge
        b = PB(["i1", t, t], t, "phi|crossed-pair", "cfg")
        b.cond_br("a0", "bm", ["a1", "a2"], [t, t], "bn", [], [])
        b.block("bn")
        b.br("bm", ["a2", "a1"], [t, t])
        x, y = b.block("bm", [("x", t), ("y", t)])
        yield b.ret(x, t)

        # constants as incoming values, three predecessors
        c1, c2 = cval(t, 1), cval(t, 3)
        b = PB(["i1", "i1", t], t, "phi|three-preds-const", "cfg")
        k1 = b.const(t, c1)
        b.cond_br("a0", "bm", ["a2"], [t], "bn", [], [])
        b.block("bn")
        k2 = b.const(t, c2)
        b.cond_br("a1", "bm", [k1], [t], "bo", [], [])
        b.block("bo")
        b.br("bm", [k2], [t])
        (z,) = b.block("bm", [("z", t)])
        yield b.ret(z, t)

        # the merge block precedes its predecessors in the block list
        b = PB(["i1", t, t], t, "phi|merge-block-first", "cfg")
        b.br("bc")
        (z,) = b.block("bm", [("z", t)])
        b.ret(z, t)
        b.block("bc")
        b.cond_br("a0", "bm", ["a1"], [t], "be", [], [])
        b.block("be")
        b.br("bm", [_bump(b, t, "a2")], [t])
        yield b.p

        # a value defined in a block that dominates its use but comes LATER in the block list
        b = PB([t, t], t, "cfg|def-after-use-in-layout", "cfg")
        b.br("b2")
        b.block("b1")
        b.ret(_bump(b, t, "v100"), t)
        b.block("b2")
        b.n = 100
        if is_int(t):
            b.op("llvm.xor", "none", [t, t], t, ["a1", "a0"])
        else:
            b.op("llvm.fneg", "none", [t], t, ["a1"])
        b.br("b1")
        yield b.p

        # unreachable in one arm (taking it is UB -> excluded)
        b = PB(["i1", t], t, "llvm.unreachable|arm", "cfg")
        b.cond_br("a0", "bok", [], [], "bbad", [], [])
        b.block("bbad")
        b.cur.append(mkop(None, "llvm.unreachable", "-", [], []))
        b.block("bok")
        yield b.ret("a1", t)

        # a block without predecessors that branches into a merge block
        b = PB([t, t], t, "phi|dead-predecessor", "cfg")
        b.br("bm", ["a0"], [t])
        b.block("bdead")
        b.br("bm", ["a1"], [t])
        (z,) = b.block("bm", [("z", t)])
        yield b.ret(z, t)

    # loops: the back edge carries block arguments
    for t in ("i8", "i32", "i64"):
        for body in ("llvm.add", "llvm.mul", "llvm.xor", "llvm.sub"):
            b = PB([t, t], t, "phi|loop-counted", "cfg")
            zero = b.const(t, 0)
            one = b.const(t, 1)
            n = b.op("llvm.and", "none", [t, t], t, ["a1", b.const(t, 3)])
            b.br("bh", [zero, "a0"], [t, t])
            i, acc = b.block("bh", [("i", t), ("acc", t)])
            c = b.op("llvm.icmp", "ult", [t, t], "i1", [i, n])
            b.cond_br(c, "bb", [], [], "bx", [acc], [t])
            b.block("bb")
            acc2 = b.op(body, "none", [t, t], t, [acc, "a0"])
            i2 = b.op("llvm.add", "none", [t, t], t, [i, one])
            b.br("bh", [i2, acc2], [t, t])
            (r,) = b.block("bx", [("r", t)])
            yield b.ret(r, t)
    for t in SCALARS:
        # swap loop: phis must be assigned in parallel
        b = PB([t, t, "i8"], t, "phi|loop-swap", "cfg")
        zero = b.const("i8", 0)
        one = b.const("i8", 1)
        n = b.op("llvm.and", "none", ["i8", "i8"], "i8", ["a2", b.const("i8", 3)])
        b.br("bh", ["a0", "a1", zero], [t, t, "i8"])
        x, y, i = b.block("bh", [("x", t), ("y", t), ("i", "i8")])
        c = b.op("llvm.icmp", "ult", ["i8", "i8"], "i1", [i, n])
        i2 = b.op("llvm.add", "none", ["i8", "i8"], "i8", [i, one])
        b.cond_br(c, "bh", [y, x, i2], [t, t, "i8"], "bx", [], [])
        b.block("bx")
        yield b.ret(x, t)

        # rotation of three values on a self loop
        b = PB([t, t, "i8"], t, "phi|loop-rotate3", "cfg")
        zero = b.const("i8", 0)
        one = b.const("i8", 1)
        k = b.const(t, cval(t, 1))
        n = b.op("llvm.and", "none", ["i8", "i8"], "i8", ["a2", b.const("i8", 3)])
        b.br("bh", ["a0", "a1", k, zero], [t, t, t, "i8"])
        x, y, z, i = b.block("bh", [("x", t), ("y", t), ("z", t), ("i", "i8")])
        c = b.op("llvm.icmp", "ult", ["i8", "i8"], "i1", [i, n])
        i2 = b.op("llvm.add", "none", ["i8", "i8"], "i8", [i, one])
        b.cond_br(c, "bh", [y, z, x, i2], [t, t, t, "i8"], "bx", [x], [t])
        (r,) = b.block("bx", [("r", t)])
        yield b.ret(r, t)

    # nested diamonds: one phi with four predecessors
    for t in ("i8", "f32"):
        b = PB(["i1", "i1", t, t], t, "phi|nested-diamond", "cfg")
        b.cond_br("a0", "bl", [], [], "br", [], [])
        b.block("bl")
        b.cond_br("a1", "bj", ["a2"], [t], "bl2", [], [])
        b.block("bl2")
        b.br("bj", [_bump(b, t, "a2")], [t])
        b.block("br")
        b.cond_br("a1", "bj", ["a3"], [t], "br2", [], [])
        b.block("br2")
        b.br("bj", [_bump(b, t, "a3")], [t])
        (r,) = b.block("bj", [("r", t)])
        yield b.ret(r, t)


# ---- memory ----------------------------------------------------------------------------
def mem_programs():
    for t in SCALARS:
        for cty in ("i32", "i64"):
            for align in (None, 16):
                b = PB([t], t, "llvm.alloca|store-load", "mem")
                p = b.alloca(t, 1, cty, align)
                b.store(t, "a0", p, size_align(t)[0] if align else None)
                yield b.ret(b.load(t, p, 1 if align else None), t)
        # the last store wins; a store to another slot does not interfere
        b = PB([t, t], t, "llvm.store|two-slots", "mem")
        p = b.alloca(t, 1)
        q = b.alloca(t, 1)
        b.store(t, "a0", p)
        b.store(t, "a1", q)
        b.store(t, "a1", p)
        b.store(t, "a0", q)
        yield b.ret(b.load(t, q), t)
        # getelementptr with constant indices on an array of 4 (count operand = 4)
        for k in range(4):
            b = PB([t, t], t, "llvm.getelementptr|const-index", "mem")
            p = b.alloca(t, 4)
            for j in range(4):
                b.store(t, "a1" if j == k else "a0", b.gep(t, p, [j], inbounds=bool(j & 1)))
            yield b.ret(b.load(t, b.gep(t, p, [k])), t)
        # ... and on !llvm.array<4 x t> with two indices
        arr = f"!llvm.array<4 x {t}>"
        for k in (0, 1, 3):
            b = PB([t, t], t, "llvm.getelementptr|array-two-indices", "mem")
            p = b.alloca(arr, 1)
            b.store(t, "a0", b.gep(arr, p, [0, (k + 1) % 4]))
            b.store(t, "a1", b.gep(arr, p, [0, k], inbounds=True))
            yield b.ret(b.load(t, b.gep(arr, p, [0, k])), t)
        # negative constant index
        b = PB([t, t], t, "llvm.getelementptr|negative-index", "mem")
        p = b.alloca(t, 4)
        q = b.gep(t, p, [3])
        b.store(t, "a0", b.gep(t, q, [-2]))
        b.store(t, "a1", q)
        yield b.ret(b.load(t, b.gep(t, p, [1])), t)
        # dynamic index (out of range -> UB -> excluded)
        for it in ("i8", "i32", "i64"):
            b = PB([t, t, it], t, "llvm.getelementptr|dynamic-index", "mem")
            p = b.alloca(t, 4)
            for j in range(4):
                b.store(t, "a0", b.gep(t, p, [j]))
            b.store(t, "a1", b.gep(t, p, [2]))
            yield b.ret(b.load(t, b.gep(t, p, ["s"], ["a2"], [it])), t)
            b = PB([t, t, it], t, "llvm.getelementptr|dynamic-second-index", "mem")
            p = b.alloca(arr, 2)
            for i in range(2):
                for j in range(4):
                    b.store(t, "a1" if (i, j) == (1, 2) else "a0", b.gep(arr, p, [i, j]))
            yield b.ret(b.load(t, b.gep(arr, p, [1, "s"], ["a2"], [it])), t)
        # struct field
        st = f"!llvm.struct<(i8, {t})>"
        b = PB([t, "i8"], t, "llvm.getelementptr|struct-field", "mem")
        p = b.alloca(st, 2)
        b.store("i8", "a1", b.gep(st, p, [1, 0]))
        b.store(t, "a0", b.gep(st, p, [1, 1]))
        b.store("i8", "a1", b.gep(st, p, [0, 0]))
        yield b.ret(b.load(t, b.gep(st, p, [1, 1])), t)
        # pointer round trip through an integer
        b = PB([t], t, "llvm.ptrtoint|round-trip", "mem")
        p = b.alloca(t, 1)
        b.store(t, "a0", p)
        i = b.op("llvm.ptrtoint", "none", [PTR], "i64", [p])
        q = b.op("llvm.inttoptr", "none", ["i64"], PTR, [i])
        yield b.ret(b.load(t, q), t)
        # pointers as block arguments and select operands
        b = PB(["i1", t, t], t, "phi|pointer", "mem")
        p = b.alloca(t, 1)
        q = b.alloca(t, 1)
        b.store(t, "a1", p)
        b.store(t, "a2", q)
        b.cond_br("a0", "bm", [p], [PTR], "bm2", [], [])
        b.block("bm2")
        b.br("bm", [q], [PTR])
        (z,) = b.block("bm", [("z", PTR)])
        yield b.ret(b.load(t, z), t)
        b = PB(["i1", t, t], t, "llvm.select|pointer", "mem")
        p = b.alloca(t, 1)
        q = b.alloca(t, 1)
        b.store(t, "a1", p)
        b.store(t, "a2", q)
        z = b.op("llvm.select", "none", ["i1", PTR, PTR], PTR, ["a0", p, q])
        yield b.ret(b.load(t, z), t)
    # type punning through memory (little endian)
    for s, t in (("f32", "i32"), ("i32", "f32"), ("f64", "i64"), ("i64", "f64"), ("i32", "i8"), ("i64", "i32")):
        b = PB([s], t, "llvm.load|type-pun", "mem")
        p = b.alloca(s, 1)
        b.store(s, "a0", p)
        yield b.ret(b.load(t, p), t)
    for off in (0, 1):
        b = PB(["i64"], "i32", "llvm.getelementptr|reinterpret-halves", "mem")
        p = b.alloca("i64", 1)
        b.store("i64", "a0", p)
        yield b.ret(b.load("i32", b.gep("i32", p, [off])), "i32")
    # store through a GEP whose element type differs from the stored type
    for s, t in (("i32", "f32"), ("i8", "i32"), ("i64", "f64"), ("f32", "i32")):
        b = PB([t], t, "llvm.getelementptr|elem-type-differs-from-access", "mem")
        p = b.alloca("i64", 2)
        q = b.gep(s, p, [1])
        b.store(t, "a0", q)
        yield b.ret(b.load(t, q), t)
    # store / load at a type that differs from the alloca's element type (pointers are opaque)
    for s, t in (("i32", "f32"), ("i64", "f64"), ("f64", "i64"), ("i64", "i8"), ("f32", "i32")):
        b = PB([t], t, "llvm.store|type-differs-from-alloca-element", "mem")
        p = b.alloca(s, 1)
        b.store(t, "a0", p)
        yield b.ret(b.load(t, p), t)
    # number of allocated elements computed at run time
    for t in SCALARS:
        b = PB([t, "i32"], t, "llvm.alloca|dynamic-count", "mem")
        m = b.op("llvm.and", "none", ["i32", "i32"], "i32", ["a1", b.const("i32", 3)])
        n = b.op("llvm.add", "none", ["i32", "i32"], "i32", [m, b.const("i32", 1)])
        p = b.op("llvm.alloca", "-", ["i32"], PTR, [n], {"elem": t, "align": None})
        q = b.gep(t, p, ["s"], [m], ["i32"])
        b.store(t, "a0", q)
        yield b.ret(b.load(t, q), t)
    b = PB([], "i64", "llvm.mlir.zero|pointer", "mem")
    z = b.op("llvm.mlir.zero", "-", [], PTR, [])
    yield b.ret(b.op("llvm.ptrtoint", "none", [PTR], "i64", [z]), "i64")


# ---- calls -----------------------------------------------------------------------------
def call_programs():
    for t in SCALARS:
        for first in (True, False):
            sub = "llvm.sub" if is_int(t) else "llvm.fsub"
            g = PB([t, t], t, "callee", "call")
            g.ret(g.op(sub, "none", [t, t], t, ["a0", "a1"]), t)
            b = PB([t, t], t, "llvm.call|swapped-args", "call")
            r = b.op("llvm.call", "-", [t, t], t, ["a1", "a0"], {"callee": "g0"})
            b.ret(r, t)
            b.p["callees"] = {"g0": g.p}
            b.p["callee_first"] = first
            yield b.p
        # void callee writing through a pointer argument
        g = PB([PTR, t], None, "callee", "call")
        g.store(t, "a1", "a0")
        g.ret()
        b = PB([t], t, "llvm.call|void-pointer-arg", "call")
        p = b.alloca(t, 1)
        b.op("llvm.call", "-", [PTR, t], None, [p, "a0"], {"callee": "g0"})
        b.ret(b.load(t, p), t)
        b.p["callees"] = {"g0": g.p}
        yield b.p
    # mixed argument types, each position returned once
    mixed = ["i8", "f64", "i32", "f32", "i64", "i1"]
    for k, t in enumerate(mixed):
        g = PB(mixed, t, "callee", "call")
        g.ret(f"a{k}", t)
        others = [cval(m, 1) for m in mixed]
        b = PB([t], t, "llvm.call|mixed-types", "call")
        vals = [("a0" if j == k else b.const(m, others[j])) for j, m in enumerate(mixed)]
        r = b.op("llvm.call", "-", mixed, t, vals, {"callee": "g0"})
        b.ret(r, t)
        b.p["callees"] = {"g0": g.p}
        b.p["callee_first"] = bool(k & 1)
        yield b.p
    # recursion with an accumulator (also a phi-free multi-block function)
    for t in ("i8", "i32"):
        g = PB([t, t], t, "callee", "call")
        c = g.op("llvm.icmp", "eq", [t, t], "i1", ["a0", g.const(t, 0)])
        g.cond_br(c, "bd", [], [], "br", [], [])
        g.block("br")
        n1 = g.op("llvm.sub", "none", [t, t], t, ["a0", g.const(t, 1)])
        acc = g.op("llvm.add", "none", [t, t], t, ["a1", "a0"])
        r = g.op("llvm.call", "-", [t, t], t, [n1, acc], {"callee": "g0"})
        g.ret(r, t)
        g.block("bd")
        g.ret("a1", t)
        b = PB([t, t], t, "llvm.call|recursive", "call")
        n = b.op("llvm.and", "none", [t, t], t, ["a0", b.const(t, 7)])
        r = b.op("llvm.call", "-", [t, t], t, [n, "a1"], {"callee": "g0"})
        b.ret(r, t)
        b.p["callees"] = {"g0": g.p}
        yield b.p
    for intrin, t, n in (("llvm.smax.i32", "i32", 2), ("llvm.umin.i8", "i8", 2), ("llvm.smin.i64", "i64", 2),
                         ("llvm.ctpop.i8", "i8", 1), ("llvm.bswap.i32", "i32", 1), ("llvm.fabs.f32", "f32", 1),
                         ("llvm.fabs.f64", "f64", 1), ("llvm.fma.f64", "f64", 3)):
        b = PB([t] * n, t, f"llvm.call_intrinsic|{intrin.rsplit('.', 1)[0]}", "call")
        r = b.op("llvm.call_intrinsic", "-", [t] * n, t, [f"a{i}" for i in range(n)], {"intrin": intrin})
        yield b.ret(r, t)


# ---- everything else that convert_op dispatches on ---------------------------------------
def misc_programs():
    for t in SCALARS:
        init = cval(t, 3)
        b = PB([t], t, "llvm.mlir.addressof|read-initialised-global", "misc")
        p = b.op("llvm.mlir.addressof", "-", [], PTR, [], {"global": "g"})
        r = b.load(t, p)
        if is_int(t):
            r = b.op("llvm.xor", "none", [t, t], t, [r, "a0"])
        else:
            r = b.op("llvm.intr.copysign", "none", [t, t], t, [r, "a0"])
        b.ret(r, t)
        b.p["globals"] = [["g", t, init]]
        yield b.p
        b = PB([t], t, "llvm.mlir.addressof|store-load-global", "misc")
        p = b.op("llvm.mlir.addressof", "-", [], PTR, [], {"global": "g"})
        b.store(t, "a0", p)
        b.ret(b.load(t, p), t)
        b.p["globals"] = [["g", t, None]]
        yield b.p
        # aggregates
        for u in ("i32", "f64"):
            st = f"!llvm.struct<({t}, {u})>"
            for k in (0, 1):
                rt = (t, u)[k]
                b = PB([t, u], rt, "llvm.insertvalue|extractvalue", "misc")
                s0 = b.op("llvm.mlir.undef", "-", [], st, [])
                s1 = b.op("llvm.insertvalue", "-", [t, st], st, ["a0", s0], {"pos": [0]})
                s2 = b.op("llvm.insertvalue", "-", [u, st], st, ["a1", s1], {"pos": [1]})
                yield b.ret(b.op("llvm.extractvalue", "-", [st], rt, [s2], {"pos": [k]}), rt)
            b = PB([u], t, "llvm.mlir.zero|struct", "misc")
            s0 = b.op("llvm.mlir.zero", "-", [], st, [])
            s1 = b.op("llvm.insertvalue", "-", [u, st], st, ["a0", s0], {"pos": [1]})
            yield b.ret(b.op("llvm.extractvalue", "-", [st], t, [s1], {"pos": [0]}), t)
    # nested aggregate positions
    nst = "!llvm.struct<(i8, !llvm.array<2 x i32>)>"
    for k in (0, 1):
        b = PB(["i32", "i32", "i8"], "i32", "llvm.insertvalue|nested-position", "misc")
        s0 = b.op("llvm.mlir.undef", "-", [], nst, [])
        s1 = b.op("llvm.insertvalue", "-", ["i32", nst], nst, ["a0", s0], {"pos": [1, 0]})
        s2 = b.op("llvm.insertvalue", "-", ["i8", nst], nst, ["a2", s1], {"pos": [0]})
        s3 = b.op("llvm.insertvalue", "-", ["i32", nst], nst, ["a1", s2], {"pos": [1, 1]})
        yield b.ret(b.op("llvm.extractvalue", "-", [nst], "i32", [s3], {"pos": [1, k]}), "i32")
    # globals with aggregate initialisers
    for k in range(4):
        b = PB(["i32"], "i32", "llvm.mlir.global|dense-array-initialiser", "misc")
        p = b.op("llvm.mlir.addressof", "-", [], PTR, [], {"global": "g"})
        r = b.load("i32", b.gep("!llvm.array<4 x i32>", p, [0, k]))
        b.ret(b.op("llvm.xor", "none", ["i32", "i32"], "i32", [r, "a0"]), "i32")
        b.p["globals"] = [["g", "!llvm.array<4 x i32>", [7, 0xFFFFFFFF, 0x80000000, 42]]]
        yield b.p
        b = PB(["i8"], "i8", "llvm.mlir.global|string-initialiser", "misc")
        p = b.op("llvm.mlir.addressof", "-", [], PTR, [], {"global": "g"})
        r = b.load("i8", b.gep("i8", p, [k]))
        b.ret(b.op("llvm.xor", "none", ["i8", "i8"], "i8", [r, "a0"]), "i8")
        b.p["globals"] = [["g", "!llvm.array<4 x i8>", "Hey!"]]
        yield b.p
    # vectors: two lanes packed into one integer
    for et, it in (("i32", "i64"), ("f32", "i64")):
        vt = f"vector<2x{et}>"
        for order in ((0, 1), (1, 0)):
            for idxt in ("i32", "i64"):
                b = PB([et, et], it, "llvm.insertelement|two-lanes", "misc")
                u = b.op("llvm.mlir.undef", "-", [], vt, [])
                v1 = b.op("llvm.insertelement", "-", [et, vt, idxt], vt, ["a0", u, b.const(idxt, order[0])])
                v2 = b.op("llvm.insertelement", "-", [et, vt, idxt], vt, ["a1", v1, b.const(idxt, order[1])])
                yield b.ret(b.op("llvm.bitcast.vec", "-", [vt], it, [v2]), it)
        b = PB([et, et, "i32"], it, "llvm.insertelement|dynamic-index", "misc")
        k0 = b.const(vt, [cval(et, 1), cval(et, 3)])
        v1 = b.op("llvm.insertelement", "-", [et, vt, "i32"], vt, ["a0", k0, "a2"])
        yield b.ret(b.op("llvm.bitcast.vec", "-", [vt], it, [v1]), it)
        for m in ((0, 1), (1, 0), (0, 0), (2, 1), (3, 2), (1, 3)):
            b = PB([et, et], it, "llvm.shufflevector|two-lanes", "misc")
            u = b.op("llvm.mlir.undef", "-", [], vt, [])
            v1 = b.op("llvm.insertelement", "-", [et, vt, "i32"], vt, ["a0", u, b.const("i32", 0)])
            v2 = b.op("llvm.insertelement", "-", [et, vt, "i32"], vt, ["a1", v1, b.const("i32", 1)])
            k = b.const(vt, [cval(et, 1), cval(et, 3)])
            w = b.op("llvm.shufflevector", "-", [vt, vt], vt, [v2, k], {"mask": list(m)})
            yield b.ret(b.op("llvm.bitcast.vec", "-", [vt], it, [w]), it)
    for et in FLTS:
        vt = f"vector<2x{et}>"
        for red in ("fadd", "fmul"):
            b = PB([et, et, et], et, f"llvm.intr.vector.reduce.{red}|ordered", "misc")
            u = b.op("llvm.mlir.undef", "-", [], vt, [])
            v1 = b.op("llvm.insertelement", "-", [et, vt, "i32"], vt, ["a1", u, b.const("i32", 0)])
            v2 = b.op("llvm.insertelement", "-", [et, vt, "i32"], vt, ["a2", v1, b.const("i32", 1)])
            yield b.ret(b.op(f"llvm.intr.vector.reduce.{red}", "-", [et, vt], et, ["a0", v2]), et)
        # masked store of two lanes
        mt = "vector<2xi1>"
        for lane in (0, 1):
            b = PB([et, et, "i1", "i1"], et, "llvm.intr.masked.store|two-lanes", "misc")
            p = b.alloca(et, 2, align=16)
            b.store(et, b.const(et, cval(et, 3)), b.gep(et, p, [0]))
            b.store(et, b.const(et, cval(et, 4)), b.gep(et, p, [1]))
            u = b.op("llvm.mlir.undef", "-", [], vt, [])
            v1 = b.op("llvm.insertelement", "-", [et, vt, "i32"], vt, ["a0", u, b.const("i32", 0)])
            v2 = b.op("llvm.insertelement", "-", [et, vt, "i32"], vt, ["a1", v1, b.const("i32", 1)])
            mu = b.op("llvm.mlir.undef", "-", [], mt, [])
            m1 = b.op("llvm.insertelement", "-", ["i1", mt, "i32"], mt, ["a2", mu, b.const("i32", 0)])
            m2 = b.op("llvm.insertelement", "-", ["i1", mt, "i32"], mt, ["a3", m1, b.const("i32", 1)])
            b.op("llvm.intr.masked.store", "-", [vt, PTR, mt], None, [v2, p, m2], {"align": size_align(et)[0]})
            yield b.ret(b.load(et, b.gep(et, p, [lane])), et)
    # libm-backed intrinsics (tolerance compare, result returned directly)
    for t in FLTS:
        for name in FLT_UN_APPROX:
            b = PB([t], t, f"{name}|approx", "misc")
            yield b.ret(b.op(name, "none", [t], t, ["a0"]), t)
        b = PB([t, t], t, "llvm.intr.pow|approx", "misc")
        yield b.ret(b.op("llvm.intr.pow", "none", [t, t], t, ["a0", "a1"]), t)
    # one function using the same intrinsic at two float types
    for name in ("llvm.intr.fabs", "llvm.intr.sqrt", "llvm.intr.copysign", "llvm.intr.fma"):
        n = {"llvm.intr.copysign": 2, "llvm.intr.fma": 3}.get(name, 1)
        b = PB(["f32"], "f64", "intrinsic|f32-and-f64-in-one-function", "misc")
        x = b.op(name, "none", ["f32"] * n, "f32", ["a0"] * n)
        y = b.op("llvm.fpext", "none", ["f32"], "f64", [x])
        yield b.ret(b.op(name, "none", ["f64"] * n, "f64", [y] * n), "f64")
    if platform.machine() in ("x86_64", "AMD64"):
        for t in ("i32", "i64"):
            for d in (None, "att"):
                b = PB([t, t], t, f"llvm.inline_asm|{d or 'default'}", "misc")
                r = b.op("llvm.inline_asm", d or "default", [t, t], t, ["a0", "a1"],
                         {"asm": "sub $1, $0", "cons": "=r,r,0", "dialect": d, "kind": "sub"})
                yield b.ret(r, t)
            b = PB([t, t], t, "llvm.inline_asm|intel", "misc")
            r = b.op("llvm.inline_asm", "intel", [t, t], t, ["a0", "a1"],
                     {"asm": "sub $0, $1", "cons": "=r,r,0", "dialect": "intel", "kind": "sub"})
            yield b.ret(r, t)


# ======================================================================================
# the pipeline under test: MLIR text -> xDSL -> convert_module -> LLVM -> MCJIT
# ======================================================================================
_RT: dict = {}
INTERNAL_EXC = ("AttributeError", "KeyError", "IndexError", "TypeError", "AssertionError")
_LLT = {"i1": "i1", "i8": "i8", "i32": "i32", "i64": "i64", "f32": "float", "f64": "double"}


def rt() -> dict:
    if not _RT:
        import llvmlite.binding as B
        from xdsl.backend.llvm.convert import convert_module
        from xdsl.context import Context
        from xdsl.dialects.builtin import Builtin
        from xdsl.dialects.llvm import LLVM
        from xdsl.parser import Parser

        B.initialize_native_target()
        B.initialize_native_asmprinter()
        B.initialize_native_asmparser()
        ctx = Context()
        ctx.load_dialect(Builtin)
        ctx.load_dialect(LLVM)
        _RT.update(B=B, target=B.Target.from_default_triple(), ctx=ctx, Parser=Parser,
                   convert=convert_module, wrappers={}, unit={}, module_seen=set(), bad_units=set())
    return _RT


def wrapper(argtys, ret):
    """native trampoline (harness code, compiled once per signature): calls fn on n packed inputs"""
    R = rt()
    key = (tuple(argtys), ret)
    if key in R["wrappers"]:
        return R["wrappers"][key][1]
    import ctypes

    ln = ["define void @w(ptr %fn, ptr %in, ptr %out, i64 %n) {", "entry:", "  br label %loop", "loop:",
          "  %i = phi i64 [0, %entry], [%i1, %body]", "  %c = icmp ult i64 %i, %n",
          "  br i1 %c, label %body, label %exit", "body:", f"  %base = mul i64 %i, {max(1, len(argtys))}"]
    call_args = []
    for k, t in enumerate(argtys):
        ln += [f"  %o{k} = add i64 %base, {k}", f"  %p{k} = getelementptr i64, ptr %in, i64 %o{k}",
               f"  %r{k} = load i64, ptr %p{k}"]
        if t == "i64":
            x = f"%r{k}"
        elif t == "f64":
            x = f"%x{k}"
            ln.append(f"  {x} = bitcast i64 %r{k} to double")
        elif t == "f32":
            x = f"%x{k}"
            ln += [f"  %y{k} = trunc i64 %r{k} to i32", f"  {x} = bitcast i32 %y{k} to float"]
        else:
            x = f"%x{k}"
            ln.append(f"  {x} = trunc i64 %r{k} to {t}")
        call_args.append(f"{_LLT[t]} {x}")
    ln.append(f"  %r = call {_LLT[ret]} %fn({', '.join(call_args)})")
    if ret == "i64":
        z = "%r"
    elif ret == "f64":
        z = "%z"
        ln.append("  %z = bitcast double %r to i64")
    elif ret == "f32":
        z = "%z"
        ln += ["  %zz = bitcast float %r to i32", "  %z = zext i32 %zz to i64"]
    else:
        z = "%z"
        ln.append(f"  %z = zext {ret} %r to i64")
    ln += ["  %po = getelementptr i64, ptr %out, i64 %i", f"  store i64 {z}, ptr %po", "  %i1 = add i64 %i, 1",
           "  br label %loop", "exit:", "  ret void", "}"]
    B = R["B"]
    mod = B.parse_assembly("\n".join(ln))
    mod.verify()
    ee = B.create_mcjit_compiler(mod, R["target"].create_target_machine())   # the engine owns its target machine
    ee.finalize_object()
    fn = ctypes.CFUNCTYPE(None, ctypes.c_void_p, ctypes.c_void_p, ctypes.c_void_p, ctypes.c_uint64)(ee.get_function_address("w"))
    R["wrappers"][key] = (ee, fn)
    return fn


def translate(text: str) -> dict:
    R = rt()
    from xdsl.utils.exceptions import LLVMTranslationException

    try:
        m = R["Parser"](R["ctx"], text).parse_module()
        m.verify()
    except Exception as e:  # noqa: BLE001 - xDSL does not consider the text a valid module
        return {"stage": "xdsl-rejects", "exc": type(e).__name__, "msg": str(e)[-300:]}
    try:
        ir = str(R["convert"](m, fallback_target_triple=None))
    except (NotImplementedError, LLVMTranslationException) as e:
        return {"stage": "reported-failure", "exc": type(e).__name__, "msg": str(e)[:300]}
    except Exception as e:  # noqa: BLE001
        stage = "raises-internal" if type(e).__name__ in INTERNAL_EXC else "reported-failure"
        return {"stage": stage, "exc": type(e).__name__, "msg": str(e)[:300]}
    B = R["B"]
    try:
        mod = B.parse_assembly(ir)
        mod.verify()
    except RuntimeError as e:
        return {"stage": "llvm-rejects", "exc": "RuntimeError", "msg": str(e)[:400], "ir": ir}
    try:
        ee = B.create_mcjit_compiler(mod, R["target"].create_target_machine())
        ee.finalize_object()
    except RuntimeError as e:
        return {"stage": "jit-error", "exc": "RuntimeError", "msg": str(e)[:300], "ir": ir}
    return {"stage": "ok", "ee": ee, "ir": ir}


def err_line(msg: str) -> str:
    for ln in msg.splitlines():
        ln = re.sub(r"^<string>:\d+:\d+: error: ", "", ln.strip())
        if ln and not ln.startswith(("LLVM IR parsing error", "^")):
            return ln
    return ""


def err_class(msg: str, nwords: int = 7) -> str:
    line = err_line(msg)
    line = re.sub(r'%"[^"]*"|@"[^"]*"|%[\w.]+|@[\w.]+|\'[^\']*\'', " ", line)
    words = [w for w in re.findall(r"[A-Za-z][A-Za-z_]+", line) if w not in ("float", "double", "half", "ptr", "void", "label")]
    return "-".join(w.lower() for w in words[:nwords]) or "unknown"


def reference_table(prog) -> tuple[list, list, int, int]:
    """reference results on the whole input set: kept inputs, expected values, #UB, #poison/unspecified"""
    kept, exp, n_ub, n_poison = [], [], 0, 0
    for inp in input_set(prog["args"]):
        try:
            r = run_ref(prog, list(inp))
        except UB:
            n_ub += 1
            continue
        if r is POISON:
            n_poison += 1
            continue
        kept.append(inp)
        exp.append(r)
    return kept, exp, n_ub, n_poison


def result_ok(t: str, e, g: int) -> bool:
    if is_int(t):
        return (g & mask(INT_W[t])) == e
    g &= mask(FLT_W[t])
    if isinstance(e, Approx):
        x, y = e.x, b2f(t, g)
        if x != x:
            return y != y
        if math.isinf(x) or math.isinf(y):
            big = 3.0e38 if t == "f32" else 1.0e308
            return x == y or (math.isinf(y) and abs(x) > big and (x > 0) == (y > 0))
        tiny = 3e-45 if t == "f32" else 1e-323
        rel = 1e-5 if t == "f32" else 1e-12
        return abs(x - y) <= rel * abs(x) + tiny
    if e is ANYNAN or is_nan(t, e):
        return is_nan(t, g)
    return g == e


def execute(prog, addr: int, table) -> dict | None:
    """run the compiled function on the kept inputs; first mismatch or None"""
    import ctypes

    kept, exp = table[0], table[1]
    if not kept:
        return None
    na = max(1, len(prog["args"]))
    flat = []
    for inp in kept:
        flat.extend(inp if inp else (0,))
    ibuf = (ctypes.c_uint64 * (len(kept) * na))(*flat)
    obuf = (ctypes.c_uint64 * len(kept))()
    wrapper(prog["args"], prog["ret"])(addr, ctypes.addressof(ibuf), ctypes.addressof(obuf), len(kept))
    bad = None
    nbad = 0
    for inp, e, g in zip(kept, exp, obuf):
        if not result_ok(prog["ret"], e, g):
            nbad += 1
            if bad is None:
                bad = {"input": [hex(v) for v in inp],
                       "expected": "nan" if e is ANYNAN else (repr(e.x) if isinstance(e, Approx) else hex(e)),
                       "got": hex(g & mask(scalar_bits(prog["ret"])))}
    if bad is not None:
        bad["mismatching_inputs"] = nbad
    return bad


def unit_kinds(o) -> set:
    """failure kinds of the one-op program of op `o` alone (cached per worker)"""
    R = rt()
    key = json.dumps([o[1], o[2], o[3], o[5]])
    if key not in R["unit"]:
        R["unit"][key] = check_batch(None, [unit_prog(o)], 0)[0]
    return R["unit"][key]


def unit_key(o) -> tuple:
    return (o[1], o[2], tuple(o[3]), json.dumps(o[5]))


def blame(prog, kind: str) -> str:
    if is_unit_prog(prog):
        o = prog["blocks"][0][2][0]
        rt()["bad_units"].add(unit_key(o))
        return f"{o[1]}|{o[2]}"
    seen = set()
    for o in prog_ops(prog):
        if not is_unit_op(o):
            continue
        key = unit_key(o)
        if key in seen:
            continue
        seen.add(key)
        if kind in unit_kinds(o):
            rt()["bad_units"].add(key)     # later programs containing it are translated on their own
            return f"{o[1]}|{o[2]}"
    return prog["sig"]


def driven_names(prog) -> list[str]:
    out = {"llvm.func"}
    for o in prog_ops(prog):
        out.add("llvm.bitcast" if o[1] == "llvm.bitcast.vec" else o[1])
    if prog.get("globals"):
        out.add("llvm.mlir.global")
    return sorted(out)


def _record_failure(st: Stats | None, progs, names, res: dict, what_prefix: str = "") -> str:
    """classify a failed translation of the module made of `progs`; returns the failure kind"""
    stage = res["stage"]
    if st is None:
        return stage
    single = len(progs) == 1
    who = blame(progs[0], stage) if single else "functions-in-one-module"
    wit = {"progs": progs, "mlir": module_text(progs, names), "stage": stage, "exception": res["exc"], "message": res["msg"][:300]}
    if stage == "xdsl-rejects":
        st.outcomes["xdsl-rejects-generated-text"] += 1
        st.extra.setdefault("xdsl_rejected", [])
        entry = f"{who}: {res['exc']}: {res['msg'].strip().splitlines()[-1][:100] if res['msg'].strip() else ''}"
        if entry not in st.extra["xdsl_rejected"] and len(st.extra["xdsl_rejected"]) < 40:
            st.extra["xdsl_rejected"].append(entry)
    elif stage == "reported-failure":
        st.outcomes[f"reported-failure:{res['exc']}"] += 1
        st.extra.setdefault("converter_raises", [])
        entry = f"{who}: {res['exc']}: {res['msg'].splitlines()[0][:100] if res['msg'] else ''}"
        if entry not in st.extra["converter_raises"] and len(st.extra["converter_raises"]) < 60:
            st.extra["converter_raises"].append(entry)
    elif stage == "raises-internal":
        st.outcomes[f"raises-internal:{res['exc']}"] += 1
        if not single or who == progs[0]["sig"]:    # no single op reproduces it: the class of the message identifies the defect
            who = err_class(res["msg"], 4)
        st.violate(f"C23|convert|raises-internal|{res['exc']}|{who}",
                   f"{what_prefix}convert_module raised {res['exc']} ({res['msg'].splitlines()[0][:120] if res['msg'] else ''}) on a verified llvm-dialect module", wit)
    elif stage == "llvm-rejects":
        st.outcomes["llvm-rejects"] += 1
        cls = err_class(res["msg"])
        wit["llvm_ir"] = res["ir"][-1500:]
        st.violate(f"C23|{who}|llvm-rejects|{cls}", f"{what_prefix}LLVM rejects the emitted IR: {err_line(res['msg'])[:160]}", wit)
    else:
        st.outcomes["jit-error"] += 1
        st.violate(f"C23|jit|error|{who}", f"{what_prefix}MCJIT could not compile the emitted IR: {res['msg'][:160]}", wit)
    return stage


def _minimise(progs, stage: str, exc: str) -> list:
    """1-minimal subset of programs whose common module still fails the same way"""
    def fails(sub) -> bool:
        r = translate(module_text(sub, [f"p{i}" for i in range(len(sub))]))
        return r["stage"] == stage and r["exc"] == exc
    cur = list(progs)
    n = 2
    while len(cur) >= 2:
        chunk = max(1, len(cur) // n)
        reduced = False
        for i in range(0, len(cur), chunk):
            cand = cur[:i] + cur[i + chunk:]
            if cand and fails(cand):
                cur = cand
                n = max(n - 1, 2)
                reduced = True
                break
        if not reduced:
            if chunk == 1:
                break
            n = min(len(cur), n * 2)
    return cur


def check_batch(st: Stats | None, progs: list, seed: int, base: int = 0) -> list[set]:
    """translate all programs as ONE module and check each; st=None: only compute failure kinds"""
    names = [f"p{i}" for i in range(len(progs))]
    res = translate(module_text(progs, names))
    if res["stage"] != "ok":
        if len(progs) == 1:
            if st is not None:
                _count_program(st, progs[0])
            return [{_record_failure(st, progs, names, res)}]
        kinds = []
        for i, p in enumerate(progs):
            kinds.extend(check_batch(st, [p], seed, base + i))
        if st is not None and not any(kinds):
            # every function translates alone but the module of all of them does not
            key = (res["stage"], res["exc"], err_class(res["msg"]))
            st.outcomes[f"module-only-failure:{res['stage']}"] += 1
            if key not in rt()["module_seen"]:
                rt()["module_seen"].add(key)
                sub = _minimise(progs, res["stage"], res["exc"])
                sn = [f"p{i}" for i in range(len(sub))]
                r2 = translate(module_text(sub, sn))
                if r2["stage"] == "ok":
                    # the same text translated a moment ago failed: the converter's answer depends on what it
                    # translated before (state leaking between conversions)
                    st.violate(f"C23|module|translation-depends-on-history|{res['stage']}|{res['exc']}",
                               f"a module failed to translate ({res['stage']}: {res['exc']}: {res['msg'][:120]}) but the same functions "
                               "translate when converted again: the result depends on earlier conversions in the process",
                               {"progs": sub, "mlir": module_text(sub, sn), "stage": res["stage"], "message": res["msg"][:300]})
                else:
                    _record_failure(st, sub, sn, r2, "for several functions in one module, ")
        return kinds
    ee = res["ee"]
    kinds = []
    for i, (p, n) in enumerate(zip(progs, names)):
        table = reference_table(p)
        bad = execute(p, ee.get_function_address(n), table)
        kinds.append({"wrong-result"} if bad else set())
        if st is None:
            continue
        _count_program(st, p)
        st.executions += 1
        st.evaluations += len(table[0])
        st.bump("inputs_excluded_ub", table[2])
        st.bump("inputs_excluded_poison_or_unspecified", table[3])
        distinct = {repr(e.x) if isinstance(e, Approx) else e for e in table[1]}
        if len(distinct) > 1:
            st.nontrivial += 1
        if (base + i + seed) % 997 == 0:
            st.sample({"mlir": func_text(p, "f"), "inputs_compared": len(table[0]), "inputs_excluded": table[2] + table[3]})
        if bad is None:
            st.outcomes["agrees" if table[0] else "accepted-all-inputs-excluded"] += 1
            continue
        st.outcomes["wrong-result"] += 1
        who = blame(p, "wrong-result")
        st.violate(f"C23|{who}|wrong-result",
                   f"compiled {p['sig']} program returns {bad['got']} for input {bad['input']}, LLVM semantics give {bad['expected']}",
                   {"progs": [p], "mlir": module_text([p], ["f"]), **bad})
    return kinds


def _count_program(st: Stats, p) -> None:
    st.states += 1
    st.transitions += sum(1 for _ in prog_ops(p))
    st.extra.setdefault("ops_driven", [])
    for n in driven_names(p):
        if n not in st.extra["ops_driven"]:
            st.extra["ops_driven"].append(n)
    st.bump(f"programs_{p['fam']}")


# ======================================================================================
# which ops does convert_op dispatch on?
# ======================================================================================
def supported_converters() -> tuple[list[str], list[str]]:
    """op names `convert_op` has a case for (read from its source + the tables it consults), notes"""
    import ast
    import inspect
    import textwrap

    from xdsl.backend.llvm import convert as cv
    from xdsl.backend.llvm import convert_op as co
    from xdsl.dialects import llvm
    from xdsl.ir import Operation

    names: set[str] = set()
    notes: list[str] = []

    def add_table(ident: str) -> bool:
        tbl = getattr(co, ident, None)
        if isinstance(tbl, dict) and tbl and all(isinstance(k, type) and issubclass(k, Operation) for k in tbl):
            names.update(k.name for k in tbl)
            return True
        return False

    tree = ast.parse(textwrap.dedent(inspect.getsource(co.convert_op)))
    for node in ast.walk(tree):
        if not isinstance(node, ast.Match):
            continue
        for case in node.cases:
            pat = case.pattern
            if isinstance(pat, ast.MatchClass):
                cls = getattr(llvm, pat.cls.attr if isinstance(pat.cls, ast.Attribute) else getattr(pat.cls, "id", ""), None)
                if cls is not None and hasattr(cls, "name"):
                    names.add(cls.name)
                else:
                    notes.append(f"unrecognised case pattern: {ast.unparse(pat)}")
            elif case.guard is not None:
                ok = [add_table(n.id) for n in ast.walk(case.guard) if isinstance(n, ast.Name) and n.id.startswith("_")]
                if not any(ok):
                    notes.append(f"unrecognised guard: {ast.unparse(case.guard)}")
            elif not (isinstance(pat, ast.MatchAs) and pat.pattern is None):
                notes.append(f"unrecognised case pattern: {ast.unparse(pat)}")
    for ident in dir(co):           # tables that a future dispatcher may consult in another way
        if ident.startswith("_") and ident.isupper():
            add_table(ident)
    src = inspect.getsource(cv.convert_module)
    for cls in ("GlobalOp", "FuncOp"):
        if f"llvm.{cls}" in src:
            names.add(getattr(llvm, cls).name)
    return sorted(names), notes


# ======================================================================================
# tasks
# ======================================================================================
BATCH = 120
FAMILIES = {"cfg": cfg_programs, "mem": mem_programs, "call": call_programs, "misc": misc_programs}


def sl_levels(tier_quick: bool) -> dict:
    """program length / universe -> (first-op schemas, schemas of the later ops)"""
    full = schemas()
    small = schemas(("i1", "i8"), ("f32",))
    mid = ("i1", "i8", "i32", "f32", "f64")
    small += [s for s in full if s[0] in CASTS and s not in small and all(t in mid for t in s[2] + (s[3],))]
    if tier_quick:
        return {"1": (full, full), "2": (small, small)}
    ti = schemas(("i1", "i8"), (), "tiny")
    tf = schemas((), ("f32",), "tiny")
    return {"1": (full, full), "2": (full, full), "3i": (ti, ti), "3f": (tf, tf)}


def module_pairs():
    """two functions in ONE module: the same op at f32 and at f64 (intrinsic declarations are per module)"""
    S32 = [s for s in schemas((), ("f32",)) if s[0] != "llvm.mlir.constant"]
    for s in S32:
        twin = (s[0], s[1], tuple("f64" if t == "f32" else t for t in s[2]), "f64" if s[3] == "f32" else s[3], s[4])
        a = unit_prog(mkop("v0", s[0], s[1], list(s[2]) + [s[3]], [], s[4]))
        b = unit_prog(mkop("v0", twin[0], twin[1], list(twin[2]) + [twin[3]], [], twin[4]))
        a["fam"] = b["fam"] = "module2"
        yield [a, b]


def task_programs(task) -> list:
    kind = task[0]
    if kind == "sl":
        _, k, quick, lo, hi, r, m = task[:7]
        first, rest = sl_levels(quick)[k]
        return list(itertools.islice(sl_programs(int(k[0]), first[lo:hi], rest), r, None, m))
    if kind == "fam":
        _, fam, shard, nshards = task[:4]
        return [p for i, p in enumerate(FAMILIES[fam]()) if i % nshards == shard]
    if kind == "one":
        return [task[1]]
    if kind == "slice":
        return task_programs(task[1])[task[2]:task[3]]
    raise ValueError(task)


def _work(task) -> Stats:
    st = Stats()
    seed = task[-1] if isinstance(task[-1], int) else 0
    if task[0] == "module2":
        for i, pair in enumerate(module_pairs()):
            if i % task[2] == task[1]:
                check_batch(st, pair, seed, i)
        return st
    progs = task_programs(task)
    bad = rt()["bad_units"]
    for i in range(0, len(progs), BATCH):
        chunk = progs[i:i + BATCH]
        # a function that fails to translate takes its whole module with it: programs containing an op that is already
        # known (in this worker) to fail on its own are translated one per module
        dirty = [p for p in chunk if bad and any(is_unit_op(o) and unit_key(o) in bad for o in prog_ops(p))] if bad else []
        clean = [p for p in chunk if p not in dirty] if dirty else chunk
        if clean:
            check_batch(st, clean, seed, i)
        for p in dirty:
            check_batch(st, [p], seed, i)
    return st


def make_tasks(quick: bool, seed: int) -> list:
    tasks = []
    lv = sl_levels(quick)
    for k, (first, _) in lv.items():
        step = {"1": 40, "2": 6 if quick else 2, "3i": 1, "3f": 1}[k]
        m = 4 if k == "3i" else 1           # the 3-op shards are large: split each round-robin
        for lo in range(0, len(first), step):
            for r in range(m):
                tasks.append(("sl", k, quick, lo, min(lo + step, len(first)), r, m, seed))
    for fam, n in (("cfg", 4), ("mem", 6), ("call", 2), ("misc", 4)):
        for s in range(n):
            tasks.append(("fam", fam, s, n, seed))
    for s in range(2):
        tasks.append(("module2", s, 2, seed))
    return tasks


def _isolate(ctx, task, status: str) -> None:
    """bisect the programs of a crashed task (each slice in a fresh process) down to the first crashing program"""
    if task[0] == "module2":
        ctx.stats.cap(f"task {task[:3]} ended with {status}")
        return
    progs = task_programs(task)
    lo, hi = 0, len(progs)
    tmo = ctx.pick(240, 900)
    dropped = 0
    while hi - lo > 1:
        n = min(8, hi - lo)
        cuts = [lo + (hi - lo) * k // n for k in range(n + 1)]
        parts = [(cuts[k], cuts[k + 1]) for k in range(n)]
        res = {}
        for t2, s2, st2 in kmap(_work, [("slice", task, a, b, ctx.seed) for a, b in parts], timeout_s=tmo):
            res[(t2[2], t2[3])] = (s2, st2)
        bad = None
        for part in parts:
            s2, st2 = res[part]
            if s2 == "ok":
                ctx.merge(st2)
            elif bad is None:
                bad = part
                status = s2
            else:
                dropped += part[1] - part[0]
        if bad is None:
            ctx.stats.cap(f"task {task[:7]} ended with {status} but no slice of it reproduces that")
            return
        lo, hi = bad
    p = progs[lo]
    who = p["sig"]
    units = [o for o in prog_ops(p) if is_unit_op(o)]
    if is_unit_prog(p):
        who = f"{units[0][1]}|{units[0][2]}"
    elif units:
        rs = {json.dumps(t2[1]["blocks"][0][2][0]): s2 for t2, s2, _ in kmap(_work, [("one", unit_prog(o), ctx.seed) for o in units], timeout_s=60)}
        for o in units:
            if rs.get(json.dumps(unit_prog(o)["blocks"][0][2][0]), "ok") != "ok":
                who = f"{o[1]}|{o[2]}"
                break
    one = Stats()
    _count_program(one, p)
    one.outcomes[f"jit-{status}"] += 1
    one.violate(f"C23|jit|{status}|{who}",
                f"compiling / running the translation of a {p['sig']} program ended the worker process with a {status} "
                f"(inputs whose reference evaluation is UB are never executed)", {"progs": [p], "mlir": module_text([p], ["f"])})
    ctx.merge(one)
    if dropped:
        ctx.stats.cap(f"{dropped} programs of task {task[:7]} lie in further slices that ended with a crash/timeout and were not re-examined")


def run(ctx):
    quick = ctx.quick
    tasks = make_tasks(quick, ctx.seed)
    # longest tasks first (multi-op straight-line shards)
    tasks.sort(key=lambda t: -(int(t[1][0]) if t[0] == "sl" else 0))
    crashed = []
    for task, status, st in kmap(_work, tasks, timeout_s=ctx.pick(240, 900)):
        if status == "ok":
            ctx.merge(st)
        else:
            crashed.append((task, status))
    # a worker died / hung (native crash, LLVM fatal error, endless loop): narrow it down to one program
    crashed.sort(key=lambda c: (c[0][0] != "sl", str(c[0][1]), repr(c[0])))
    for task, status in crashed[:3]:
        _isolate(ctx, task, status)
    for task, status in crashed[3:]:
        ctx.stats.cap(f"task {task[:7]} ended with {status} (not isolated)")

    supported, notes = supported_converters()
    driven = set(ctx.stats.extra.get("ops_driven", []))
    uncovered = [n for n in supported if n not in driven]
    ctx.stats.extra["ops_driven"] = sorted(driven)
    ctx.stats.extra["converter_ops_supported"] = supported
    ctx.stats.extra["converter_ops_uncovered"] = uncovered
    if notes:
        ctx.stats.extra["dispatch_table_notes"] = notes
    if uncovered or notes:
        ctx.stats.cap(f"converter ops without a generated program: {uncovered}; unread dispatch cases: {notes}")
    lv = sl_levels(quick)
    ctx.bounds = {
        "straight_line": {f"{k}_ops": {"op_schemas": len(f)} for k, (f, r) in lv.items()},
        "max_arguments": 3,
        "types": list(SCALARS),
        "shape_families": {k: sum(1 for _ in f()) for k, f in FAMILIES.items()},
        "two_function_modules": sum(1 for _ in module_pairs()),
        "inputs": "1 arg: all i8 values / boundary sets (13-20 ints, 16 floats); 2 args: products of boundary sets; >=3 args: reduced sets (<=8 values each)",
        "converter_ops_supported": len(supported), "converter_ops_uncovered": uncovered,
    }
    ctx.rule = ("every straight-line llvm.func with k ops drawn from the listed schemas (operands = earlier results or up to 3 "
                "fresh arguments, every result used, last result returned) plus the fixed cfg/mem/call/misc shape families over all "
                "scalar types; states = programs, transitions = ops placed, executions = programs compiled by MCJIT and run; "
                "non-trivial = program whose reference result takes >= 2 distinct values over its compared inputs")
    ctx.assumptions = [
        "reference LLVM semantics in props/c23.py (LangRef: poison/UB rules, IEEE-754 RNE, little-endian byte memory)",
        "inputs whose reference result is UB, poison, undef or depends on a NaN payload are excluded and never executed",
        "the host LLVM (llvmlite MCJIT, default target machine) implements LLVM semantics; libm-backed intrinsics compared with 1e-5/1e-12 relative tolerance",
        "llvm-dialect programs are produced as MLIR text in custom syntax and must pass xDSL's parser and verifier",
    ]


def replay(rep) -> bool:
    st = Stats()
    progs = rep["witness"]["progs"]
    rt()["module_seen"].clear()
    check_batch(st, progs, 0)
    if rep["signature"].startswith("C23|jit|crash") or rep["signature"].startswith("C23|jit|timeout"):
        return True     # reaching this line means the process survived
    return rep["signature"] not in st.violations
