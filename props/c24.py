"""C24 — dominance and post-order traversal match their graph definitions.

Fully exhaustive enumeration of CFGs with n blocks where each block ends in a terminator with
an ORDERED list of 0, 1 or 2 successors (self loops and duplicate edges included), built from
real Blocks inside a real Region; DominanceInfo / strictly_dominates / PostOrderIterator are
compared with the path definitions.
"""
from __future__ import annotations

import itertools

from mc.stats import Stats
from mc.pool import pmap


def succ_choices(n: int, maxsucc: int = 2):
    out = [()]
    for k in range(1, maxsucc + 1):
        out.extend(itertools.product(range(n), repeat=k))
    return out


def build(graph):
    from xdsl.dialects.test import TestTermOp
    from xdsl.ir import Block, Region

    blocks = [Block() for _ in graph]
    for b, succs in zip(blocks, graph):
        b.add_op(TestTermOp(successors=[blocks[s] for s in succs]))
    return Region(blocks), blocks


def reach(graph, removed=None):
    if removed == 0:
        return set()
    seen = {0}
    todo = [0]
    while todo:
        x = todo.pop()
        for s in graph[x]:
            if s != removed and s not in seen:
                seen.add(s)
                todo.append(s)
    return seen


def check_graph(st: Stats, graph) -> None:
    from xdsl.ir.post_order import PostOrderIterator
    from xdsl.irdl.dominance import DominanceInfo, strictly_dominates

    n = len(graph)
    region, blocks = build(graph)
    idx = {id(b): i for i, b in enumerate(blocks)}
    R = reach(graph)
    st.executions += 1
    wit = {"graph": [list(s) for s in graph]}
    # ---- dominance
    try:
        dom = DominanceInfo(region)
    except Exception as e:  # noqa: BLE001
        st.violate(f"C24|dominance|raises|{type(e).__name__}", f"DominanceInfo raised {type(e).__name__}", wit)
        dom = None
    if dom is not None:
        for a in range(n):
            r_wo_a = reach(graph, removed=a)
            for b in R:
                st.evaluations += 1
                ref = a == b or b not in r_wo_a
                got = dom.dominates(blocks[a], blocks[b])
                if got != ref:
                    cls = "unreachable-predecessor" if any(v in R for u in range(n) if u not in R for v in graph[u]) else "reachable-only"
                    st.violate(f"C24|dominates|{cls}|got={got}",
                               f"dominates(^{a},^{b}) = {got}, path definition says {ref}", {**wit, "a": a, "b": b})
                gs = dom.strictly_dominates(blocks[a], blocks[b])
                if gs != (ref and a != b):
                    cls = "unreachable-predecessor" if any(v in R for u in range(n) if u not in R for v in graph[u]) else "reachable-only"
                    st.violate(f"C24|strictly_dominates|{cls}|got={gs}",
                               f"strictly_dominates(^{a},^{b}) = {gs}, path definition says {ref and a != b}", {**wit, "a": a, "b": b})
        # module-level helper on a few pairs (it rebuilds DominanceInfo each call)
        for a, b in ((0, n - 1), (n - 1, 0)):
            if b in R:
                ref = a != b and b not in reach(graph, removed=a)
                got = strictly_dominates(blocks[a], blocks[b])
                st.evaluations += 1
                if got != ref:
                    st.violate("C24|strictly_dominates-fn", f"strictly_dominates(^{a},^{b}) = {got}, expected {ref}", {**wit, "a": a, "b": b})
    # ---- post order
    try:
        order = []
        for blk in PostOrderIterator(blocks[0]):
            order.append(idx.get(id(blk), -1))
            if len(order) > 4 * n + 4:
                break
    except Exception as e:  # noqa: BLE001
        st.violate(f"C24|postorder|raises|{type(e).__name__}", f"PostOrderIterator raised {type(e).__name__}", wit)
        return
    st.evaluations += 1
    w2 = {**wit, "order": order}
    if len(order) != len(set(order)):
        st.violate("C24|postorder|duplicate", "post-order yields a block more than once", w2)
    elif set(order) - R:
        st.violate("C24|postorder|unreachable-yielded", "post-order yields an unreachable block", w2)
    elif R - set(order):
        st.violate("C24|postorder|reachable-missing", "post-order misses a reachable block", w2)
    elif order[-1] != 0:
        st.violate("C24|postorder|entry-not-last", "entry block is not last", w2)
    else:
        # necessary condition of any post-order: every non-entry block is emitted before some predecessor
        pos = {b: i for i, b in enumerate(order)}
        for v in order[:-1]:
            if not any(v in graph[u] and pos[u] > pos[v] for u in R if u != v):
                st.violate("C24|postorder|not-a-postorder", f"^{v} is emitted after all of its predecessors", w2)
                break
    if len(R) > 1:
        st.nontrivial += 1
    st.outcomes[f"reach={len(R)}/{n} po={len(order)}"] += 1


def _shard(arg) -> Stats:
    n, first, max_edges, seed = arg
    st = Stats()
    choices = succ_choices(n)
    rest_n = n - 1
    count = 0
    for rest in itertools.product(choices, repeat=rest_n):
        graph = (first,) + rest
        if max_edges is not None and sum(len(s) for s in graph) > max_edges:
            continue
        check_graph(st, graph)
        st.states += 1
        st.transitions += n
        count += 1
        if (count + seed) % 4001 == 0:
            st.sample({"graph": [list(s) for s in graph]})
    return st


def _shard3(arg) -> Stats:
    """terminators with up to THREE ordered successors (non-adjacent duplicates such as [^a, ^b, ^a]) on n blocks"""
    n, first, seed = arg
    st = Stats()
    for rest in itertools.product(succ_choices(n, 3), repeat=n - 1):
        check_graph(st, (first,) + rest)
        st.states += 1
        st.transitions += n
    return st


def _edits(arg) -> Stats:
    """history: query dominance on a region, edit ONE successor in place, query the SAME region again — every graph on n blocks
    (successor lists of length 0..2) x every single in-place successor replacement.  The second answers must be those of the
    edited graph (compared with the path definition and with a freshly built region)."""
    from xdsl.irdl.dominance import DominanceInfo, strictly_dominates

    n, first, seed = arg
    st = Stats()
    for rest in itertools.product(succ_choices(n), repeat=n - 1):
        graph = (first,) + rest
        for u in range(n):
            for i in range(len(graph[u])):
                for t in range(n):
                    if t == graph[u][i]:
                        continue
                    region, blocks = build(graph)
                    R0 = reach(graph)
                    # first round of queries (module-level helper and a DominanceInfo object)
                    for a in range(n):
                        for b in R0:
                            strictly_dominates(blocks[a], blocks[b])
                    DominanceInfo(region)
                    for mode in ("setitem", "assign-list"):
                        if mode == "setitem":
                            blocks[u].last_op.successors[i] = blocks[t]
                        else:
                            region, blocks = build(graph)
                            for a in range(n):
                                for b in R0:
                                    strictly_dominates(blocks[a], blocks[b])
                            new = list(blocks[u].last_op.successors)
                            new[i] = blocks[t]
                            blocks[u].last_op.successors = new
                        g2 = tuple(tuple(t if (v == u and j == i) else s for j, s in enumerate(ss)) for v, ss in enumerate(graph))
                        R = reach(g2)
                        st.states += 1
                        st.transitions += 1
                        st.executions += 1
                        st.nontrivial += 1 if R != R0 else 0
                        wit = {"graph": [list(x) for x in graph], "edit": {"block": u, "successor_index": i, "new_target": t, "how": mode}}
                        for a in range(n):
                            r_wo_a = reach(g2, removed=a)
                            for b in R:
                                st.evaluations += 1
                                ref = a != b and b not in r_wo_a
                                got = strictly_dominates(blocks[a], blocks[b])
                                if got != ref:
                                    st.violate(f"C24|history|strictly_dominates-after-in-place-successor-edit|{mode}",
                                               f"after replacing a successor in place, strictly_dominates(^{a},^{b}) = {got}, the edited graph says {ref}",
                                               {**wit, "a": a, "b": b})
                                got2 = DominanceInfo(region).strictly_dominates(blocks[a], blocks[b])
                                if got2 != ref:
                                    st.violate(f"C24|history|DominanceInfo-after-in-place-successor-edit|{mode}",
                                               f"a DominanceInfo built after the edit says {got2} for (^{a},^{b}), the edited graph says {ref}",
                                               {**wit, "a": a, "b": b})
    return st


def run(ctx):
    for _, st in pmap(_shard3, [(n, first, ctx.seed) for n in ((2, 3) if ctx.quick else (2, 3)) for first in succ_choices(n, 3)]):
        ctx.merge(st)
    for _, st in pmap(_edits, [(n, first, ctx.seed) for n in ((2, 3) if ctx.quick else (2, 3, 4)) for first in succ_choices(n)]):
        ctx.merge(st)
    tasks = []
    sizes = [(1, None), (2, None), (3, None), (4, None)]
    if not ctx.quick:
        sizes.append((5, 6))
    for n, max_edges in sizes:
        for first in succ_choices(n):
            tasks.append((n, first, max_edges, ctx.seed))
    # three-successor terminators on 3 blocks (thorough only adds 4 blocks <=5 edges)
    ctx.bounds = {"blocks": [s[0] for s in sizes], "successors_per_block": "ordered lists of length 0..2",
                  "three_successor_terminators_on_blocks": [2, 3],
                  "in_place_successor_edit_histories_on_blocks": [2, 3] if ctx.quick else [2, 3, 4],
                  "n5_max_edges": None if ctx.quick else 6}
    for _, st in pmap(_shard, tasks):
        ctx.merge(st)
    ctx.rule = ("every CFG with n blocks, each block ending in test.termop with an ordered successor list of length 0..2 "
                "(self loops, duplicate edges, unreachable blocks included); states = graphs, transitions = blocks placed; "
                "non-trivial = more than one reachable block")
    ctx.assumptions = ["reference reachability in props/c24.py", "test.termop successors behave like any terminator's"]


def replay(rep) -> bool:
    st = Stats()
    if "edit" in rep["witness"]:
        g = tuple(tuple(x) for x in rep["witness"]["graph"])
        return rep["signature"] not in _edits((len(g), g[0], 0)).violations
    check_graph(st, tuple(tuple(s) for s in rep["witness"]["graph"]))
    return rep["signature"] not in st.violations
