"""C25 — the sparse backward liveness analysis computes its specified fixpoint under any schedule.

programs x schedules, exhaustive within the stated bounds, no sampling.

Programs: ONE block of exactly n ops, for every n = 1..N, over a ground-truth alphabet fixed HERE (KIND table below): pure
(test.pureop), read-only (test.op_with_memread), write (test.op_with_memwrite), unknown effects (test.op);
0..2 operands drawn from all earlier values, 0..1 results; separate "multi" plans add pure / read-only ops with 2 or 3
results (every subset of the results made live through exit-state / returned value sets and through users).  Two hosts:
  * "mod"  : builtin.module body; a chosen subset of values is marked "returned from a public function" the way
             the analysis defines that boundary: LivenessAnalysis.set_to_exit_state(lattice), called by a
             harness-side DataFlowAnalysis (the Seeder) loaded into the same solver, either from its initialize
             or from a worklist visit (so the moment of the boundary marking is part of the schedule);
  * "func" : the body of a PUBLIC func.func whose func.return returns a chosen tuple of values; the solver is
             run on the func.func itself (DeadCodeAnalysis only makes the top-level op's entry block executable);
             "func1" / "func2" give the function 1 / 2 arguments, which are values like any other (operands of any
             op, the first op of the block included; returnable; their liveness is compared with the reference).
             Multi-block bodies are outside the property (branch-free IR; the analyses raise on successors).
Analyses are loaded in every relevant order of {DeadCodeAnalysis, LivenessAnalysis, Seeder} (MODES): with
DeadCodeAnalysis first the liveness initialisation sweep already sees an executable block; with LivenessAnalysis
first every op of the block is enqueued when the block becomes executable.

Schedules: solver._worklist is replaced by ChoiceQueue: at every pop ANY queued item may be taken.  The queue is
presented to the chooser in a canonical order — by enqueue batch (one batch per propagate_if_changed call, i.e.
insertion order), inside a batch by (analysis load index, position of the op in the block) — so choice 0 is the
solver's own FIFO order and address-based set iteration inside on_update cannot leak into the enumeration;
identical pending items are presented once (the queue is a multiset).  Executions are enumerated by choice
prefix with an iterated deviation bound (mc.explore.dfs_choices); every execution builds fresh IR and a fresh
solver and runs the real DataFlowSolver.initialize_and_run to completion.

The n <= 3 plans use the full alphabet (4 kinds at every position, ordered operand pairs); the 4- and 5-op plans a reduced
one (see programs()).  A violation also counts whether its (case, mode) already fails under the FIFO schedule or only
under a deviating one (coverage counters case_modes_wrong_*).

Oracle (independent of xDSL's trait helpers): reference liveness = least fixpoint of "operands of an op that is
not removable per KIND are live; operands of an op with a live result are live; returned/exit-state values are
live".  Every value's final Liveness (missing lattice == dead) must equal the reference, and the vector must be
identical for all explored schedules of one (program, mode).  The result of an effectful op is NOT asserted
live on its own (the property speaks only of values USED by such ops).
"""
from __future__ import annotations

import itertools
from typing import Any

from mc.explore import Chooser, ReplayDivergence, dfs_choices
from mc.pool import pmap
from mc.stats import Stats

# ---------------------------------------------------------------- ground truth (never derived from xDSL traits)
KIND = {            # kind -> (xdsl.dialects.test class name, removable when all results unused)
    "pure": ("TestPureOp", True),
    "read": ("TestReadOp", True),
    "write": ("TestWriteOp", False),
    "unknown": ("TestOp", False),
    "return": (None, False),          # func.return of the public host function (terminator)
}
REMOVABLE_KINDS = ("pure", "read")
KEEP_KINDS = ("write", "unknown")
STEP_CAP = 400                        # pops per execution; the legitimate maximum on these blocks is below 20

# analyses load orders.  D = DeadCodeAnalysis, L = LivenessAnalysis, Si = Seeder marking exit states from its
# initialize, Sw = Seeder marking them from worklist visits.
MODES_NOSEED = (("D", "L"), ("L", "D"))
MODES_SEED = (("D", "L", "Si"), ("D", "Si", "L"), ("L", "D", "Si"),
              ("D", "L", "Sw"), ("L", "D", "Sw"), ("Sw", "L", "D"))
MODE_SETS = {"all": MODES_SEED, "core": (("D", "Si", "L"), ("D", "L", "Sw"), ("L", "D", "Sw")), "one": (("L", "D", "Sw"),)}


# ---------------------------------------------------------------- programs
def nargs_of(host: str) -> int:
    """hosts: "mod", "func" (no arguments), "func1" / "func2" (public function with 1 / 2 arguments)"""
    return int(host[4:]) if host.startswith("func") and len(host) > 4 else 0


def programs(n_ops: int, full: bool, variant: int = 0, multi: bool = False, nargs: int = 0):
    """every op list of exactly n_ops ops.  op = (kind, operand value indices, n_results).
    nargs      : values 0..nargs-1 are the arguments of the entry block (so ANY op, the first one included, may
                 take operands); op results are numbered after them.
    multi=True: removable (pure / read-only) ops with operands may also have 2 or 3 results; ONLY the programs that
                contain at least one such multi-result op are produced (the others belong to the multi=False plans).
    full=True : all four kinds at every position, sources (no operands, one result) pure or unknown,
                ordered operand pairs (duplicates included).
    full=False: reduced alphabet — at block position p one removable and one non-removable kind, alternating
                with p (variant 0: pure/write at even p, read/unknown at odd p; variant 1 the other way round),
                sources pure only, unordered operand pairs (duplicates included)."""
    def kinds_at(p: int):
        if full:
            return ("pure", "read", "write", "unknown"), ("pure", "unknown")
        i = (p + variant) % 2
        return (REMOVABLE_KINDS[i], KEEP_KINDS[i]), ("pure",)

    def rec(prefix: tuple, v: int, has_multi: bool):
        p = len(prefix)
        if p == n_ops:
            if has_multi == multi:
                yield prefix, v
            return
        kinds, src = kinds_at(p)
        for k in src:
            yield from rec(prefix + ((k, (), 1),), v + 1, has_multi)
        opnds = [(i,) for i in range(v)] + [(i, j) for i in range(v) for j in range(v) if full or i <= j]
        for k in kinds:
            for o in opnds:
                for r in ((0, 1, 2, 3) if multi and KIND[k][1] else (0, 1)):
                    yield from rec(prefix + ((k, o, r),), v + r, has_multi or r > 1)
    yield from rec((), nargs, False)


def live_sets(v: int, max_size: int):
    for k in range(0, min(v, max_size) + 1):
        yield from itertools.combinations(range(v), k)


def build(host: str, ops, live):
    from xdsl.dialects import func, test
    from xdsl.dialects.builtin import ModuleOp, i32
    from xdsl.ir import Block, Region

    nargs = nargs_of(host)
    block = Block(arg_types=[i32] * nargs)
    vals: list[Any] = list(block.args)
    body = []
    for kind, opnds, nres in ops:
        cls = getattr(test, KIND[kind][0])
        op = cls.create(operands=[vals[i] for i in opnds], result_types=[i32] * nres)
        vals.extend(op.results)
        body.append(op)
    if host.startswith("func"):
        body.append(func.ReturnOp(*[vals[i] for i in live]))
        block.add_ops(body)
        top = func.FuncOp("f", ([i32] * nargs, [i32] * len(live)), Region(block), visibility="public")
    else:
        top = ModuleOp(body)
    return top, body, vals


# ---------------------------------------------------------------- reference model
def op_table(host: str, ops, live):
    """ops incl. the return of the func host, each as (kind, operands, result value indices)"""
    out = []
    v = nargs_of(host)                 # entry block arguments come first; they have no defining op
    for kind, opnds, nres in ops:
        out.append((kind, tuple(opnds), tuple(range(v, v + nres))))
        v += nres
    if host.startswith("func"):
        out.append(("return", tuple(live), ()))
    return out, v


def reference(host: str, ops, live):
    table, v = op_table(host, ops, live)
    lv = [False] * v
    if host == "mod":
        for s in live:
            lv[s] = True
    changed = True
    while changed:
        changed = False
        for kind, opnds, results in table:
            if (not KIND[kind][1]) or any(lv[r] for r in results):
                for o in opnds:
                    if not lv[o]:
                        lv[o] = True
                        changed = True
    return lv


def chain_needed(host: str, ops, live) -> bool:
    """some value is live ONLY through a live result of a removable op (needs >= 1 propagation step)"""
    table, v = op_table(host, ops, live)
    ref = reference(host, ops, live)
    direct = [False] * v
    if host == "mod":
        for s in live:
            direct[s] = True
    for kind, opnds, _ in table:
        if not KIND[kind][1]:
            for o in opnds:
                direct[o] = True
    return any(ref[i] and not direct[i] for i in range(v))


def user_class(host, ops, live, val: int, ref) -> str:
    """why `val` is (not) live according to the table: a stable, small classification of its users"""
    table, _ = op_table(host, ops, live)
    reasons = set()
    if host == "mod" and val in live:
        reasons.add("exit-state")
    for kind, opnds, results in table:
        if val in opnds:
            if not KIND[kind][1]:
                reasons.add(f"used-by-{kind}")
            elif any(ref[r] for r in results):
                reasons.add(f"used-by-live-{kind}")
            else:
                reasons.add(f"used-by-dead-{kind}")
    for r in ("exit-state", "used-by-return", "used-by-write", "used-by-unknown", "used-by-live-pure", "used-by-live-read",
              "used-by-dead-pure", "used-by-dead-read"):
        if r in reasons:
            return r
    return "no-users"


# ---------------------------------------------------------------- the controlled worklist
class _StepCap(Exception):
    pass


class _Abort(Exception):
    pass


class ChoiceQueue:
    """Stand-in for DataFlowSolver._worklist (deque protocol used by the solver: truthiness, append, popleft).
    A multiset of pending items; pop order is owned by the chooser."""

    def __init__(self, ch: Chooser, keyfn, cap: int) -> None:
        self.ch, self.keyfn, self.cap = ch, keyfn, cap
        self.items: list[tuple] = []      # (batch, canonical key, seq, item)
        self.batch = 0
        self.seq = 0
        self.pops = 0
        self.foreign: set[str] = set()

    def new_batch(self) -> None:
        self.batch += 1

    def append(self, item) -> None:
        self.items.append((self.batch, self.keyfn(item), self.seq, item))
        self.seq += 1

    appendleft = append                    # whatever discipline the solver asks for, the chooser decides

    def extend(self, items) -> None:
        for it in items:
            self.append(it)

    extendleft = extend

    def __len__(self) -> int:
        return len(self.items)

    def __bool__(self) -> bool:
        return bool(self.items)

    def _order(self) -> list[int]:
        return sorted(range(len(self.items)), key=lambda i: self.items[i][:3])

    # not part of the protocol the solver uses today; served (canonically) but reported, because a solver that
    # drains the queue through them would take scheduling decisions the chooser does not see
    def __iter__(self):
        self.foreign.add("__iter__")
        return iter([self.items[i][3] for i in self._order()])

    def __contains__(self, item) -> bool:
        return any(x[3] == item for x in self.items)

    def __getitem__(self, i):
        self.foreign.add("__getitem__")
        return [self.items[j][3] for j in self._order()][i]

    def clear(self) -> None:
        self.foreign.add("clear")
        self.items.clear()

    def popleft(self):
        if not self.items:
            raise IndexError("pop from an empty worklist")
        self.pops += 1
        if self.pops > self.cap:
            raise _StepCap()
        distinct: list[int] = []
        seen = set()
        for i in self._order():
            k = self.items[i][1]
            if k not in seen:
                seen.add(k)
                distinct.append(i)
        c = self.ch.choose(len(distinct)) if len(distinct) > 1 else 0
        return self.items.pop(distinct[c])[3]

    pop = popleft


def _seeder_class():
    from dataclasses import dataclass

    from xdsl.analysis.dataflow import DataFlowAnalysis, ProgramPoint

    @dataclass(frozen=True)
    class ValuePoint(ProgramPoint):
        """harness-only work item tag: 'mark result #index of the op at this point' (results of one multi-result
        op must give DISTINCT work items)"""
        index: int = 0

    class Seeder(DataFlowAnalysis):
        """the 'returned from a public function' boundary: calls LivenessAnalysis.set_to_exit_state"""

        def __init__(self, solver, get_liveness, values, via_worklist, queue):
            super().__init__(solver)
            self.get_liveness, self.values, self.via_worklist, self.queue = get_liveness, values, via_worklist, queue
            self.by_point = {}

        def mark(self, v) -> None:
            liveness = self.get_liveness()
            liveness.set_to_exit_state(liveness.get_lattice_element(v))

        def initialize(self, op) -> None:
            for v in self.values:
                if self.via_worklist:
                    pt = ValuePoint(v.owner, v.index)
                    self.by_point[pt] = v
                    self.queue.new_batch()
                    self.solver.enqueue((pt, self))
                else:
                    self.mark(v)

        def visit(self, point) -> None:
            self.mark(self.by_point[point])

    return Seeder


_SEEDER = None


def run_once(host: str, ops, live, mode, ch: Chooser):
    """fresh IR + fresh solver, real DataFlowSolver.initialize_and_run under the chooser.
    returns (outcome, pops, non-protocol worklist methods used); outcome = tuple of bools per value | ('raised', Exc, msg) | ('nonterm',)"""
    from xdsl.analysis.dataflow import DataFlowSolver
    from xdsl.analysis.dead_code_analysis import DeadCodeAnalysis
    from xdsl.analysis.liveness_analysis import Liveness, LivenessAnalysis
    from xdsl.context import Context

    global _SEEDER
    if _SEEDER is None:
        _SEEDER = _seeder_class()
    top, body, vals = build(host, ops, live)
    pos = {id(op): i for i, op in enumerate(body)}
    pos[id(top)] = -1
    solver = DataFlowSolver(Context())

    def keyfn(item):
        point, analysis = item
        a = next((i for i, x in enumerate(solver._analyses) if x is analysis), len(solver._analyses))
        ent = getattr(point, "entity", None)
        return (a, pos.get(id(ent), len(body) + 1), getattr(point, "index", 0), type(ent).__name__ if id(ent) not in pos else "")

    q = ChoiceQueue(ch, keyfn, STEP_CAP)
    solver._worklist = q
    real_propagate = solver.propagate_if_changed

    def propagate(state, changed):          # one canonical batch per propagation (== insertion order)
        q.new_batch()
        return real_propagate(state, changed)

    solver.propagate_if_changed = propagate
    liveness: list[Any] = []
    for m in mode:
        if m == "D":
            solver.load(DeadCodeAnalysis)
        elif m == "L":
            liveness.append(solver.load(LivenessAnalysis))
        else:
            solver.load(_SEEDER, lambda: liveness[0], [vals[i] for i in live], m == "Sw", q)
    try:
        solver.initialize_and_run(top)
    except _StepCap:
        return ("nonterm",), q.pops, sorted(q.foreign)
    except ReplayDivergence:
        raise
    except Exception as e:  # noqa: BLE001
        return ("raised", type(e).__name__, str(e)[:160]), q.pops, sorted(q.foreign)
    out = []
    for v in vals:
        s = solver.lookup_state(v, Liveness)
        out.append(bool(s is not None and s.is_live))
    return tuple(out), q.pops, sorted(q.foreign)


# ---------------------------------------------------------------- one (program, live set): all modes x schedules
def judge(st: Stats | None, host, ops, live, mode, schedule, outcome, ref) -> list[str]:
    """compare one execution with the reference; returns the signatures that fired"""
    sigs = []
    wit = {"host": host, "ops": [list(map(_j, o)) for o in ops], "live": list(live), "mode": list(mode), "schedule": list(schedule)}
    if outcome[0] == "raised":
        sig = f"C25|solver|raises|{outcome[1]}"
        sigs.append(sig)
        if st is not None:
            st.violate(sig, f"DataFlowSolver.initialize_and_run raised {outcome[1]}: {outcome[2]}", wit)
        return sigs
    if outcome[0] == "nonterm":
        sig = "C25|solver|does-not-terminate"
        sigs.append(sig)
        if st is not None:
            st.violate(sig, f"the solver popped more than {STEP_CAP} work items on a {len(ops)}-op block", wit)
        return sigs
    for i, (got, exp) in enumerate(zip(outcome, ref)):
        if st is not None:
            st.evaluations += 1
        if got == exp:
            continue
        cls = user_class(host, ops, live, i, ref)
        sig = f"C25|liveness|value-wrongly-{'live' if got else 'dead'}|{cls}"
        sigs.append(sig)
        if st is not None:
            st.violate(sig, f"value #{i} is reported {'live' if got else 'dead'} but the reference says {'live' if exp else 'dead'} ({cls})",
                       {**wit, "value": i, "observed": list(outcome), "expected": list(ref)})
    return sigs


def _j(x):
    return list(x) if isinstance(x, tuple) else x


def explore_case(st: Stats, host, ops, live, modes, bound, cap) -> int:
    ref = reference(host, ops, live)
    most = 0
    for mode in modes:
        first: list[Any] = []
        stop = [False]
        flags: dict[str, bool] = {}

        def run(ch, mode=mode):
            return run_once(host, ops, live, mode, ch)

        def on_exec(ch, res, mode=mode):
            outcome, pops, foreign = res
            for name in foreign:
                st.cap(f"solver used worklist.{name}: pop order not fully controlled")
            st.executions += 1
            st.transitions += pops
            st.max_depth = max(st.max_depth, pops)
            bad = bool(judge(st, host, ops, live, mode, ch.taken, outcome, ref))
            if bad:
                flags["bad_default" if not any(ch.taken) else "bad_deviating"] = True
            if outcome[0] in ("raised", "nonterm"):
                st.outcomes[outcome[0]] += 1
                if outcome[0] == "nonterm":
                    st.cap(f"step cap {STEP_CAP} pops hit")
                    raise _Abort()          # every further schedule of a diverging case costs STEP_CAP pops
                return
            if not first:
                first.append((outcome, list(ch.taken)))
                st.outcomes[f"live={sum(outcome)}/{len(outcome)}"] += 1
            elif outcome != first[0][0] and not stop[0]:
                stop[0] = True
                st.violate("C25|liveness|schedule-dependent",
                           "two worklist orders of the same program give different liveness results",
                           {"host": host, "ops": [list(map(_j, o)) for o in ops], "live": list(live), "mode": list(mode),
                            "schedule": first[0][1], "schedule_b": list(ch.taken),
                            "observed": list(first[0][0]), "observed_b": list(outcome), "expected": list(ref)})

        try:
            n, capped = dfs_choices(run, on_exec, bound if bound is not None else 10 ** 9, max_executions=cap)
        except _Abort:
            n, capped = 1, False
        if capped:
            st.cap(f"max_executions_per_case_mode={cap}")
        if flags.get("bad_default"):
            st.bump("case_modes_wrong_under_fifo_schedule")
        elif flags.get("bad_deviating"):
            st.bump("case_modes_wrong_only_under_deviating_schedule")
        st.bump("schedules[" + ">".join(mode) + "]", n)
        most = max(most, n)
    return most


def _shard(arg) -> Stats:
    plan, shard, nshards, seed = arg
    host, n_ops, full, variant, max_live, bound, cap, mkey, skip_sources_only, multi = plan
    st = Stats()
    idx = 0
    for ops, v in programs(n_ops, full, variant, multi, nargs_of(host)):
        if skip_sources_only and all(not o[1] for o in ops):
            continue                       # identical in both kind variants: counted with variant 0
        for live in live_sets(v, max_live):
            idx += 1
            if idx % nshards != shard:
                continue
            modes = MODES_NOSEED if (host != "mod" or not live) else MODE_SETS[mkey]
            st.states += 1
            most = explore_case(st, host, ops, live, modes, bound, cap)
            if most > 1 and chain_needed(host, ops, live):
                st.nontrivial += 1
            if (idx + seed) % 7919 == 0:
                st.sample({"host": host, "ops": [list(map(_j, o)) for o in ops], "live": list(live), "reference": reference(host, ops, live)})
    return st


# plan = (host, n_ops, full alphabet?, variant, max |live set|, deviation bound (None = unbounded),
#         max executions per (case, mode), mode set for cases with exit-state values,
#         skip programs made of sources only (they do not depend on the variant and belong to the variant-0 plan))
def plans(quick: bool):
    Q, T = 20000, 400000
    if quick:
        ps = [
            ("mod", 1, True, 0, 1, None, Q, "all", False), ("mod", 2, True, 0, 2, None, Q, "all", False),
            ("mod", 3, True, 0, 3, 2, Q, "all", False),
            ("func", 1, True, 0, 1, None, Q, "all", False), ("func", 2, True, 0, 2, None, Q, "all", False),
            ("func", 3, True, 0, 2, 2, Q, "all", False),
            ("mod", 4, False, 0, 1, 1, Q, "core", False), ("func", 4, False, 1, 1, 1, Q, "all", False),
        ]
        multi = [      # programs with at least one pure / read-only op that has 2 or 3 results
            ("mod", 2, True, 0, 3, None, Q, "all", False), ("func", 2, True, 0, 3, None, Q, "all", False),
            ("mod", 3, False, 0, 2, 1, Q, "all", False), ("func", 3, False, 0, 2, 2, Q, "all", False),
        ]
        args = [       # public function with 1 / 2 arguments: any op, the FIRST one included, may consume them
            ("func1", 1, True, 0, 2, None, Q, "all", False), ("func1", 2, True, 0, 2, None, Q, "all", False),
            ("func2", 1, True, 0, 2, None, Q, "all", False), ("func2", 2, True, 0, 1, None, Q, "all", False),
            ("func1", 3, False, 0, 1, 1, Q, "all", False),
        ]
    else:
        ps = [
            ("mod", 1, True, 0, 1, None, T, "all", False), ("mod", 2, True, 0, 2, None, T, "all", False),
            ("mod", 3, True, 0, 3, None, T, "all", False),
            ("func", 1, True, 0, 1, None, T, "all", False), ("func", 2, True, 0, 2, None, T, "all", False),
            ("func", 3, True, 0, 2, None, T, "all", False),
            ("mod", 4, False, 0, 1, None, T, "all", False), ("mod", 4, False, 1, 4, 2, T, "core", True),
            ("func", 4, False, 0, 2, None, T, "all", False),
            ("func", 5, False, 1, 1, 1, T, "all", False),
        ]
        multi = [
            ("mod", 2, True, 0, 3, None, T, "all", False), ("func", 2, True, 0, 3, None, T, "all", False),
            ("mod", 3, False, 0, 3, 2, T, "all", False), ("mod", 3, False, 1, 3, 2, T, "all", False),
            ("func", 3, False, 0, 3, None, T, "all", False), ("func", 3, False, 1, 3, None, T, "all", False),
            ("mod", 4, False, 0, 0, 2, T, "all", False),
        ]
        args = [
            ("func1", 1, True, 0, 2, None, T, "all", False), ("func1", 2, True, 0, 2, None, T, "all", False),
            ("func2", 1, True, 0, 3, None, T, "all", False), ("func2", 2, True, 0, 2, None, T, "all", False),
            ("func1", 3, False, 0, 2, None, T, "all", False), ("func1", 3, False, 1, 2, None, T, "all", False),
            ("func2", 3, False, 0, 1, 1, T, "all", False),
        ]
    return [p + (False,) for p in ps + args] + [p + (True,) for p in multi]


def _nshards(p) -> int:
    return 96 if p[1] + nargs_of(p[0]) >= 3 else 4


def run(ctx):
    ps = plans(ctx.quick)
    tasks = [(p, i, _nshards(p), ctx.seed) for p in ps for i in range(_nshards(p))]
    # big plans first so the pool stays busy
    tasks.sort(key=lambda t: (-t[0][1] - nargs_of(t[0][0]), not t[0][9]))
    done = {(t[0], t[1]): st for t, st in pmap(_shard, tasks)}
    for p in ps:                                   # merge in plan order (smallest programs first), shard order:
        for i in range(_nshards(p)):                   # the witness kept per signature is then deterministic and small
            ctx.merge(done[(p, i)])
    ctx.bounds = {"plans": [{"host": p[0], "ops": p[1], "alphabet": "full(4 kinds, ordered operand pairs)" if p[2] else f"reduced(variant {p[3]})",
                             "results_per_op": "0-1, removable ops also 2-3 (programs with at least one such op)" if p[9] else "0-1",
                             "max_live_set": p[4], "deviation_bound": "unbounded" if p[5] is None else p[5],
                             "max_executions_per_case_mode": p[6],
                             "entry_block_arguments": nargs_of(p[0]),
                             "modes_with_exit_state_values": [">".join(m) for m in MODE_SETS[p[7]]] if p[0] == "mod" else []} for p in ps],
                  "modes": [">".join(m) for m in MODES_NOSEED + MODES_SEED], "step_cap": STEP_CAP}
    ctx.rule = ("every one-block program of exactly N ops over {pure, read, write, unknown} x operand wirings (0-2 operands from all earlier "
                "values) x 0-1 results (multi-result plans: pure / read-only ops also with 2 or 3 results), x every returned/exit-state value set up to the stated size, x every analysis load order (mode), x every "
                "worklist pop order with at most k deviations from the solver's FIFO order; states = (program, live set) cases, transitions = "
                "worklist pops of the real solver, executions = complete solver runs, evaluations = per-value comparisons with the reference; "
                "non-trivial = case with more than one explored schedule in some mode AND a value that is live only through a live result of a "
                "removable op")
    ctx.assumptions = ["solver._worklist (append/popleft/truthiness) is the solver's only scheduling point",
                       "ground-truth removability table KIND in props/c25.py (pure, read-only removable; write, unknown effects, func.return not)",
                       "LivenessAnalysis.set_to_exit_state called by a co-loaded analysis is the 'returned from a public function' boundary of the module host",
                       "a value without a Liveness lattice is dead",
                       "function arguments are live exactly when used like any other value (no conservative widening of public-function arguments)"]


class _Lenient(Chooser):
    """replays a recorded schedule; where the (changed) code offers fewer alternatives than recorded, takes the default"""

    def choose(self, n: int) -> int:
        i = len(self.taken)
        if i < len(self.prefix) and self.prefix[i] >= n:
            self.prefix[i] = 0
        return super().choose(n)


def replay(rep) -> bool:
    w = rep["witness"]
    ops = tuple((k, tuple(o), r) for k, o, r in w["ops"])
    live = tuple(w["live"])
    mode = tuple(w["mode"])
    host = w["host"]
    ref = reference(host, ops, live)
    out_a, _, _ = run_once(host, ops, live, mode, _Lenient(w["schedule"]))
    sig = rep["signature"]
    if sig == "C25|liveness|schedule-dependent":
        out_b, _, _ = run_once(host, ops, live, mode, _Lenient(w["schedule_b"]))
        return out_a == out_b
    return sig not in judge(None, host, ops, live, mode, w["schedule"], out_a, ref)
