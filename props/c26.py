"""C26 — affine expression algebra preserves values.

Generator-tree enumeration (exhaustive within the stated bound, no sampling) of affine expression trees
built WITH THE OPERATOR OVERLOADS of AffineExpr over leaves {d0, d1, s0, constants -2..3}:
`+` (expr+expr, expr+int, int+expr), `-` with the expression on the LEFT (expr-expr, expr-int), unary `-`,
`*` where one side is a constant (python int or constant expression), `//`, `ceil_div`, `%` by POSITIVE
constants 1..4 (python int or constant expression).  `int - expr` is outside the property and never built.

Next to every built expression the harness keeps its own raw AST and the vector of reference values of that
AST on the full box [-4,4]^3 (729 points; floor division / modulo with Python semantics for positive
divisors, ceildiv(a,b) = -((-a)//b)).  Oracles:
 (1) build     : AffineExpr.eval of the built (eagerly simplified) expression == reference of the raw tree;
 (2) simplify  : the same after AffineExpr.simplify(nd, ns) for (nd, ns) in {(2,1), (3,2)};
     compose   : AffineExpr.compose / replace_dims_and_symbols / AffineMap.compose /
                 AffineMap.replace_dims_and_symbols with replacement expressions from a small fixed set of
                 the same tree language == reference composition; AffineMap.eval of composed maps;
                 inverse_permutation() composed with its map is the identity;
 (3) print-parse: AffineMapAttr -> text -> Parser.parse_attribute (AffineParser) -> eval == reference.

Levels: 0 = leaves, 1 and 2 = every in-domain operator applied to states of the lower levels (complete; the
parent registers the distinct built expressions, the first tree that reaches an expression owns the state),
3 and 4 = restricted operator sets on top of every / selected level-2 states (see ctx.bounds), de-duplicated
inside a shard and counted globally through string hashes.  A transition whose value is wrong is reported
once (innermost) and the state it would own is never used as an operand.

Values of a library expression are obtained with the library's own AffineExpr.eval at every point of the box
projected on the variables that occur in it (a point that differs only in a variable that does not occur in
the expression cannot be distinguished by eval) and compared with the reference at all 729 points.
"""
from __future__ import annotations

import gc
import itertools
import os
import sys
import time
from array import array

from mc.stats import Stats
from mc.pool import pmap

# ----------------------------------------------------------------------------- bounded space
LO, HI = -4, 4
RNG = tuple(range(LO, HI + 1))
PTS = [(a, b, c) for a in RNG for b in RNG for c in RNG]          # (d0, d1, s0)
NPTS = len(PTS)
INTS = tuple(range(-2, 4))
DIVS = (1, 2, 3, 4)
LEAVES = [("d", 0), ("d", 1), ("s", 0)] + [("c", v) for v in INTS]
VARBIT = {("d", 0): 1, ("d", 1): 2, ("s", 0): 4}

# per variable mask: the projected point list (unused variables fixed to 0) and the expansion table
PROJ: dict[int, list[tuple[tuple[int, int], tuple[int]]]] = {}
EXPAND: dict[int, list[int]] = {}
for _m in range(8):
    _ax = [RNG if _m & (1 << i) else (0,) for i in range(3)]
    _pp = list(itertools.product(*_ax))
    _ix = {p: i for i, p in enumerate(_pp)}
    PROJ[_m] = [((p[0], p[1]), (p[2],)) for p in _pp]
    EXPAND[_m] = [_ix[tuple(p[i] if _m & (1 << i) else 0 for i in range(3))] for p in PTS]


# ----------------------------------------------------------------------------- reference semantics
def _cdiv(a: int, b: int) -> int:
    return -((-a) // b)


SOP = {
    "add": lambda a, b: a + b,
    "sub": lambda a, b: a - b,
    "mul": lambda a, b: a * b,
    "fdiv": lambda a, b: a // b,          # b > 0: floor
    "cdiv": _cdiv,                        # b > 0: ceiling
    "mod": lambda a, b: a % b,            # b > 0: result in [0, b)
}


def ref_eval(t, d, s) -> int:
    """Reference value of a raw tree at dims d, symbols s."""
    k = t[0]
    if k == "d":
        return d[t[1]]
    if k == "s":
        return s[t[1]]
    if k == "c" or k == "i":
        return t[1]
    if k == "neg":
        return -ref_eval(t[1], d, s)
    return SOP[k](ref_eval(t[1], d, s), ref_eval(t[2], d, s))


def ref_vec_leaf(t) -> list[int]:
    return [ref_eval(t, (p[0], p[1]), (p[2],)) for p in PTS]


def ref_vec_op(k: str, va, vb) -> list[int]:
    """Reference vector of a node from the reference vectors of its children (same semantics as SOP)."""
    if k == "neg":
        return [-x for x in va]
    if k == "add":
        return [x + y for x, y in zip(va, vb)]
    if k == "sub":
        return [x - y for x, y in zip(va, vb)]
    if k == "mul":
        return [x * y for x, y in zip(va, vb)]
    if k == "fdiv":
        return [x // y for x, y in zip(va, vb)]
    if k == "cdiv":
        return [-((-x) // y) for x, y in zip(va, vb)]
    if k == "mod":
        return [x % y for x, y in zip(va, vb)]
    raise AssertionError(k)


def raw_vars(t) -> int:
    k = t[0]
    if k in ("d", "s"):
        return VARBIT[(k, t[1])]
    if k in ("c", "i"):
        return 0
    m = 0
    for c in t[1:]:
        m |= raw_vars(c)
    return m


def raw_depth(t) -> int:
    if t[0] in ("d", "s", "c", "i"):
        return 0
    return 1 + max(raw_depth(c) for c in t[1:])


TOK = {"add": "+", "sub": "-", "mul": "*", "fdiv": "//", "cdiv": "ceil_div", "mod": "%"}


def pretty(t) -> str:
    k = t[0]
    if k in ("d", "s"):
        return f"{k}{t[1]}"
    if k == "c":
        return f"C({t[1]})"
    if k == "i":
        return f"{t[1]}"
    if k == "neg":
        return f"(-{pretty(t[1])})"
    if k == "cdiv":
        return f"{pretty(t[1])}.ceil_div({pretty(t[2])})"
    return f"({pretty(t[1])} {TOK[k]} {pretty(t[2])})"


def tolist(t):
    return [tolist(x) if isinstance(x, tuple) else x for x in t]


def totuple(t):
    return tuple(totuple(x) if isinstance(x, list) else x for x in t)


def op_form(t) -> str:
    k = t[0]
    name = {"add": "add", "sub": "sub", "mul": "mul", "fdiv": "floordiv", "cdiv": "ceil_div", "mod": "mod", "neg": "neg"}[k]
    if k == "neg":
        return name
    if t[1][0] == "i":
        return "int-" + name
    if t[2][0] == "i":
        return name + "-int"
    return name


# ----------------------------------------------------------------------------- library side
def build_leaf(t):
    from xdsl.ir.affine import AffineExpr

    k = t[0]
    if k == "d":
        return AffineExpr.dimension(t[1])
    if k == "s":
        return AffineExpr.symbol(t[1])
    if k == "c":
        return AffineExpr.constant(t[1])
    if k == "i":
        return t[1]
    raise AssertionError(t)


def apply_op(k: str, a, b):
    """The operator overloads under test."""
    if k == "neg":
        return -a
    if k == "add":
        return a + b
    if k == "sub":
        return a - b
    if k == "mul":
        return a * b
    if k == "fdiv":
        return a // b
    if k == "cdiv":
        return a.ceil_div(b)
    if k == "mod":
        return a % b
    raise AssertionError(k)


def build(t):
    k = t[0]
    if k in ("d", "s", "c", "i"):
        return build_leaf(t)
    if k == "neg":
        return apply_op(k, build(t[1]), None)
    return apply_op(k, build(t[1]), build(t[2]))


def shape(e) -> str:
    from xdsl.ir.affine import AffineBinaryOpExpr, AffineConstantExpr, AffineDimExpr, AffineSymExpr

    if isinstance(e, int):
        return "int"
    if isinstance(e, AffineConstantExpr):
        return "const"
    if isinstance(e, (AffineDimExpr, AffineSymExpr)):
        return "leaf"
    if isinstance(e, AffineBinaryOpExpr):
        return e.kind.name
    return type(e).__name__


def lib_vars(e, nd: int = 2) -> int:
    """Variable mask of a library expression (harness-side walker): dim i -> bit i, symbol j -> bit nd+j."""
    from xdsl.ir.affine import AffineBinaryOpExpr, AffineDimExpr, AffineSymExpr

    if isinstance(e, AffineBinaryOpExpr):
        return lib_vars(e.lhs, nd) | lib_vars(e.rhs, nd)
    if isinstance(e, AffineDimExpr):
        return 1 << e.position
    if isinstance(e, AffineSymExpr):
        return 1 << (nd + e.position)
    return 0


_VCACHE: dict = {}
_VCACHE_MAX = 40000


def lib_vec(st: Stats, e) -> list[int] | None:
    """Values of library expression `e` at all 729 points of the (d0, d1, s0) box, via AffineExpr.eval."""
    hit = _VCACHE.get(e)
    if hit is None:
        m = lib_vars(e)
        if m > 7:
            return None                                   # mentions a variable outside (d0, d1, s0)
        try:
            vals = [e.eval(d, s) for d, s in PROJ[m]]
        except Exception as ex:  # noqa: BLE001 - an eval that raises is a value that differs
            vals = [f"eval raised {type(ex).__name__}"] * len(PROJ[m])
        st.bump("lib_eval_calls", len(vals))
        if len(_VCACHE) >= _VCACHE_MAX:
            _VCACHE.clear()
        hit = _VCACHE[e] = (m, vals)
    m, vals = hit
    return [vals[j] for j in EXPAND[m]]


def first_diff(ref, got):
    for i, (x, y) in enumerate(zip(ref, got)):
        if x != y:
            p = PTS[i]
            return {"d0": p[0], "d1": p[1], "s0": p[2], "expected": x, "got": y}
    return None


def sub_exprs(e):
    from xdsl.ir.affine import AffineBinaryOpExpr

    if isinstance(e, AffineBinaryOpExpr):
        yield from sub_exprs(e.lhs)
        yield from sub_exprs(e.rhs)
    yield e


# ----------------------------------------------------------------------------- state checks
SIMPLIFY_SIZES = ((2, 1), (3, 2))


def _simplify_bad(st: Stats, e, ref, sizes) -> tuple | None:
    """Returns None if simplify preserves the value of e (whose value vector is ref), else (kind, detail)."""
    for nd, ns in sizes:
        st.executions += 1
        try:
            s = e.simplify(nd, ns)
        except NotImplementedError:
            st.bump("skipped_simplify_not_implemented")
            continue
        except Exception as ex:  # noqa: BLE001
            return (f"raises-{type(ex).__name__}", {"num_dims": nd, "num_symbols": ns, "error": str(ex)[:200]})
        got = lib_vec(st, s)
        st.evaluations += NPTS
        if got is None:
            return ("result-uses-unknown-variable", {"num_dims": nd, "num_symbols": ns, "simplified": str(s)})
        if got != ref:
            return ("value-differs", {"num_dims": nd, "num_symbols": ns, "simplified": str(s), **first_diff(ref, got)})
        st.outcomes["simplify:" + ("unchanged" if s == e else "changed")] += 1
    return None


def check_simplify(st: Stats, raw, e, ref, sizes=SIMPLIFY_SIZES) -> None:
    bad = _simplify_bad(st, e, ref, sizes)
    if bad is None:
        return
    # narrow the signature: smallest sub-expression (library structure) on which simplify already fails
    culprit, cbad = e, bad
    for sub in sub_exprs(e):
        if sub is e:
            break
        sref = lib_vec(st, sub)
        if sref is None:
            continue
        b = _simplify_bad(Stats(), sub, sref, sizes)
        if b is not None:
            culprit, cbad = sub, b
            break
    st.violate(f"C26|simplify|{shape(culprit)}|{cbad[0]}",
               f"simplify() of {culprit} does not preserve its value ({cbad[0]})",
               {"check": "simplify", "tree": tolist(raw), "pretty": pretty(raw), "built": str(e),
                "minimal_subexpr": str(culprit), **cbad[1]})


_PCTX = None


def _parse_map_attr(text: str):
    global _PCTX
    from xdsl.context import Context
    from xdsl.parser import Parser

    if _PCTX is None:
        _PCTX = Context()
    return Parser(_PCTX, text).parse_attribute()


def _roundtrip(st: Stats, exprs, nd: int = 2, ns: int = 1):
    """print -> parse of one affine_map attribute holding `exprs`; returns (kind, parsed results | detail)."""
    from xdsl.dialects.builtin import AffineMapAttr
    from xdsl.ir.affine import AffineMap

    attr = AffineMapAttr(AffineMap(nd, ns, tuple(exprs)))
    text = str(attr)
    st.executions += 1
    try:
        back = _parse_map_attr(text)
    except Exception as ex:  # noqa: BLE001
        return (f"raises-{type(ex).__name__}", {"text": text[:300], "error": str(ex)[:200]})
    if not isinstance(back, AffineMapAttr):
        return ("not-an-affine-map", {"text": text[:300], "parsed": str(back)[:200]})
    m = back.data
    if (m.num_dims, m.num_symbols, len(m.results)) != (nd, ns, len(exprs)):
        return ("arity-differs", {"text": text[:300], "parsed": str(m)[:300]})
    return ("ok", m.results)


def _pp_bad(st: Stats, e, ref, nd: int = 2, ns: int = 1):
    kind, res = _roundtrip(st, [e], nd, ns)
    if kind != "ok":
        return (kind, res)
    got = lib_vec(st, res[0])
    st.evaluations += NPTS
    if got is None:
        return ("result-uses-unknown-variable", {"printed": str(e), "parsed": str(res[0])})
    if got != ref:
        return ("value-differs", {"printed": str(e), "parsed": str(res[0]), **first_diff(ref, got)})
    return None


def check_print_parse(st: Stats, batch) -> None:
    """batch: list of (raw thunk, expr, ref).  One attribute with all results; individual fallback on any problem."""
    if not batch:
        return
    kind, res = _roundtrip(st, [b[1] for b in batch])
    if kind == "ok":
        ok = True
        for (_, e, ref), p in zip(batch, res):
            got = lib_vec(st, p)
            st.evaluations += NPTS
            if got != ref:
                ok = False
            else:
                st.outcomes["print-parse:" + ("identical" if p == e else "restructured")] += 1
        if ok:
            return
    for raw_thunk, e, ref in batch:
        report_pp(st, raw_thunk, e, ref)


def report_pp(st: Stats, raw_thunk, e, ref, nd: int = 2, ns: int = 1) -> bool:
    """Single-expression print -> parse check in a (nd dims, ns symbols) map; the signature names the smallest
    sub-expression (library structure) that already fails to round-trip."""
    bad = _pp_bad(st, e, ref, nd, ns)
    if bad is None:
        return True
    culprit, cbad = e, bad
    for sub in sub_exprs(e):
        if sub is e:
            break
        sref = lib_vec(st, sub)
        if sref is None:
            continue
        b = _pp_bad(Stats(), sub, sref, nd, ns)
        if b is not None:
            culprit, cbad = sub, b
            break
    raw = raw_thunk()
    st.violate(f"C26|print-parse|{shape(culprit)}|{cbad[0]}",
               f"printing and re-parsing {culprit} does not preserve its value ({cbad[0]})",
               {"check": "print-parse", "tree": tolist(raw), "pretty": pretty(raw), "built": str(e),
                "minimal_subexpr": str(culprit), "num_dims": nd, "num_symbols": ns, **cbad[1]})
    return False


# ----------------------------------------------------------------------------- generator tree
class State:
    """A distinct built library expression together with the raw tree (k, a, b) that first reached it.
    a / b are States, python ints (int operand form) or None."""
    __slots__ = ("k", "a", "b", "expr", "depth", "vec", "const", "bad", "vars")

    def __init__(self, k, a, b, expr, depth):
        self.k, self.a, self.b, self.expr, self.depth = k, a, b, expr, depth
        self.vec = None
        self.bad = False
        if k in ("d", "s"):
            self.vars = VARBIT[(k, a)]             # variables of the raw tree (mask d0=1, d1=2, s0=4)
        elif k == "c":
            self.vars = 0
        else:
            self.vars = (a.vars if isinstance(a, State) else 0) | (b.vars if isinstance(b, State) else 0)
        if k in ("d", "s"):
            self.const = None
        elif k == "c":
            self.const = a
        else:                                   # closed tree: its single value (reference semantics)
            ca = a if isinstance(a, int) else a.const
            cb = 0 if b is None else (b if isinstance(b, int) else b.const)
            if ca is None or cb is None:
                self.const = None
            else:
                self.const = -ca if k == "neg" else SOP[k](ca, cb)


def raw_of(x):
    if isinstance(x, int):
        return ("i", x)
    if x.k in ("d", "s", "c"):
        return (x.k, x.a)
    if x.k == "neg":
        return ("neg", raw_of(x.a))
    return (x.k, raw_of(x.a), raw_of(x.b))


def vec_of(x):
    if x is None:
        return None
    if isinstance(x, int):
        return [x] * NPTS
    if x.vec is None:
        if x.k in ("d", "s", "c"):
            x.vec = ref_vec_leaf((x.k, x.a))
        else:
            x.vec = ref_vec_op(x.k, vec_of(x.a), vec_of(x.b))
    return x.vec


def expr_of(x):
    return x if (x is None or isinstance(x, int)) else x.expr


UNARY_ALL = tuple(
    [("neg", None, None)]
    + [("add", v, "R") for v in INTS] + [("add", v, "L") for v in INTS]
    + [("sub", v, "R") for v in INTS]
    + [("mul", v, "R") for v in INTS] + [("mul", v, "L") for v in INTS]
    + [(k, v, "R") for k in ("fdiv", "cdiv", "mod") for v in DIVS]
)
# restricted operator sets for the deepest levels: all div/mod forms by 2..4 plus one representative of neg/mul/add
_DIVMOD = {(k, v, "R") for k in ("fdiv", "cdiv", "mod") for v in (2, 3, 4)} | {("neg", None, None), ("mul", 2, "R"), ("add", 2, "L")}
UNARY_DIVMOD = tuple(o for o in UNARY_ALL if o in _DIVMOD)
_DM8 = {("fdiv", 2, "R"), ("fdiv", 3, "R"), ("cdiv", 2, "R"), ("cdiv", 3, "R"), ("mod", 2, "R"), ("mod", 3, "R"), ("mod", 4, "R"),
        ("neg", None, None)}
UNARY_DM8 = tuple(o for o in UNARY_ALL if o in _DM8)
UNARY_DM9 = tuple(o for o in UNARY_ALL if o[0] in ("fdiv", "cdiv", "mod") and o[1] in (2, 3, 4))
UNARY_SETS = {"all": UNARY_ALL, "divmod": UNARY_DIVMOD, "dm8": UNARY_DM8, "dm9": UNARY_DM9, "none": ()}


def binary_kinds(x: State, y: State):
    """expression (op) expression forms that are inside the property's domain, x on the left."""
    yield "add"
    yield "sub"
    if x.const is not None or y.const is not None:
        yield "mul"
    if y.const is not None and 1 <= y.const <= 4:
        yield "fdiv"
        yield "cdiv"
        yield "mod"


def transitions(a: State, unary, rights, lefts):
    """Generator-tree edges out of primary state a: (k, x, y, unary-op descriptor | None), a in position x
    (or y for int-on-the-left forms and for `lefts`)."""
    for op in unary:
        k, v, side = op
        if k == "neg":
            yield "neg", a, None, op
        elif side == "R":
            yield k, a, v, op
        else:
            yield k, v, a, op
    for b in rights:
        for k in binary_kinds(a, b):
            yield k, a, b, None
    for b in lefts:
        for k in binary_kinds(b, a):
            yield k, b, a, None


# globals shared with forked workers: LEVELS[d] = list of States first reached at depth d (d <= 2), INDEX: expr -> State
_G: dict = {"levels": [], "index": {}, "cfg": {}}


_NVARS = [bin(m).count("1") for m in range(8)]


def _good(xs):
    return [s for s in xs if not s.bad]


def level_cfg(depth: int, a: State, cfg):
    """(unary ops, right partners, left partners) of primary a when generating level `depth`."""
    L = _G["levels"]
    if depth == 1:
        return UNARY_ALL, _good(L[0]), ()
    if depth == 2:
        if a.depth == 1:
            return UNARY_ALL, _good(L[0]) + _good(L[1]), ()
        return (), _good(L[1]), ()                 # leaf (op) level-1 state; unary forms on leaves are level 1
    if depth == 3:
        small = _small(raw_of(a))
        few = _NVARS[a.vars] <= 2
        if cfg["l3_prims"] == "all":
            un = UNARY_SETS[cfg["l3_unary"] if few else cfg["l3_unary_3var"]]
        else:
            un = UNARY_SETS[cfg["l3_unary"]] if (small and few) else ()
        lv, rs = (), ()
        if cfg["l3_leaves"] and small:          # (op) leaf on either side, result mentions at most 2 variables
            lv = [b for b in _good(L[0]) if _NVARS[a.vars | b.vars] <= 2]
            rs = lv
        if cfg["l3_divmod_partners"] and small:
            rs = list(rs) + [b for b in _G["divmod_partners"] if _NVARS[a.vars | b.vars] <= 2]
        return un, rs, lv
    raise AssertionError(depth)


def primaries(depth: int):
    L = _G["levels"]
    if depth == 1:
        return _good(L[0])
    if depth == 2:
        return _good(L[0] + L[1])
    return _good(L[depth - 1])


def register_level(depth: int, cfg) -> list:
    """Build-only pass in the parent: canonical de-dup (structural equality of the built expression); the first
    transition (in generator order) that reaches an expression owns the state."""
    index = _G["index"]
    new = []
    for a in primaries(depth):
        un, rs, ls = level_cfg(depth, a, cfg)
        for k, x, y, _ in transitions(a, un, rs, ls):
            try:
                e = apply_op(k, expr_of(x), expr_of(y))
            except Exception:  # noqa: BLE001 - classified by the worker that checks this transition
                continue
            if e not in index:
                s = State(k, x, y, e, depth)
                index[e] = s
                new.append(s)
    _G["levels"].append(new)
    return new


def _raw3(k, x, y):
    return (k, raw_of(x)) if k == "neg" else (k, raw_of(x), raw_of(y))


def do_transition(st: Stats, k, x, y, primary: State):
    """Build through the overload, compare with the reference (oracle 1).
    Returns None (raised), ("bad", expr) (value differs, reported) or (expr, reference vector)."""
    st.transitions += 1
    st.executions += 1
    try:
        e = apply_op(k, expr_of(x), expr_of(y))
    except NotImplementedError:
        st.bump("skipped_build_not_implemented")
        st.outcomes["build:NotImplementedError"] += 1
        return None
    except Exception as ex:  # noqa: BLE001
        raw = _raw3(k, x, y)
        st.violate(f"C26|build|{op_form(raw)}|{shape(primary.expr)}|raises-{type(ex).__name__}",
                   f"{pretty(raw)} raised {type(ex).__name__}",
                   {"check": "build", "tree": tolist(raw), "pretty": pretty(raw), "error": str(ex)[:200]})
        return None
    ref = ref_vec_op(k, vec_of(x), vec_of(y))
    got = lib_vec(st, e)
    st.evaluations += NPTS
    if got != ref:
        raw = _raw3(k, x, y)
        kind = "value-differs" if got is not None else "result-uses-unknown-variable"
        st.violate(f"C26|build|{op_form(raw)}|{shape(primary.expr)}|{kind}",
                   f"{pretty(raw)} builds {e}, whose value differs from the expression tree that was written",
                   {"check": "build", "tree": tolist(raw), "pretty": pretty(raw), "built": str(e),
                    **(first_diff(ref, got) if got is not None else {})})
        return ("bad", e)
    st.outcomes[f"build:{k}:{shape(primary.expr)}->{shape(e)}"] += 1
    return (e, ref)


class Checker:
    """State checks (simplify, print-parse) of the states owned by one shard."""

    def __init__(self, st: Stats, sizes, seed: int):
        self.st, self.sizes, self.seed = st, sizes, seed
        self.batch: list = []
        self.n = 0

    def state(self, raw_thunk, e, ref, depth: int) -> bool:
        """Runs the per-state checks; returns True iff the state is non-trivial (value not constant on the box)."""
        st = self.st
        st.max_depth = max(st.max_depth, depth)
        if self.sizes and _simplify_bad(st, e, ref, self.sizes) is not None:
            check_simplify(st, raw_thunk(), e, ref, self.sizes)
        self.batch.append((raw_thunk, e, ref))
        if len(self.batch) >= 24:
            self.flush()
        self.n += 1
        if (self.n + 131 * self.seed) % (1777 if depth >= 3 else 41) == 0:
            st.sample({"tree": pretty(raw_thunk()), "built": str(e), "value_at_(1,2,3)": ref[(1 + 4) * 81 + (2 + 4) * 9 + 3 + 4]})
        v0 = ref[0]
        return any(v != v0 for v in ref)

    def flush(self):
        check_print_parse(self.st, self.batch)
        self.batch = []


def _shard_level(task):
    """Levels 1 and 2 (globally registered): all transitions out of primaries[lo:hi]; the state checks are run by the
    shard whose transition owns the state."""
    depth, lo, hi, seed = task
    cfg = _G["cfg"]
    index = _G["index"]
    st = Stats()
    ck = Checker(st, cfg["sizes"], seed)
    tainted = []
    for a in primaries(depth)[lo:hi]:
        un, rs, ls = level_cfg(depth, a, cfg)
        for k, x, y, _ in transitions(a, un, rs, ls):
            r = do_transition(st, k, x, y, a)
            if r is None:
                continue
            owner = index.get(r[1] if r[0] == "bad" else r[0])
            owned = owner is not None and owner.k == k and _same(owner.a, x) and _same(owner.b, y)
            if r[0] == "bad":
                if owned:
                    tainted.append(_path(owner))
                continue
            if not owned:
                st.bump("duplicate_states_merged")
                continue
            e, ref = r
            if ck.state(lambda o=owner: raw_of(o), e, ref, depth):
                st.nontrivial += 1
    ck.flush()
    return st, tainted


def _shard_deep(task):
    """Levels 3 and 4 (not registered): transitions out of the level-2 states [lo:hi]; shard-local de-dup of the
    reached expressions (plus the global index of levels <= 2); string hashes are returned for the global count."""
    lo, hi, seed = task
    cfg = _G["cfg"]
    index = _G["index"]
    st = Stats()
    ck = Checker(st, cfg["sizes"], seed)
    un4 = UNARY_SETS[cfg["l4_unary"]]
    seen: set = set()
    hs = {3: array("q"), 4: array("q")}
    nts = {3: array("q"), 4: array("q")}

    def visit(k, x, y, prim, depth):
        """one transition; returns the new State if it reached an expression not seen before."""
        r = do_transition(st, k, x, y, prim)
        if r is None or r[0] == "bad":
            return None
        e, ref = r
        if e in index or e in seen:
            st.bump("duplicate_states_merged")
            return None
        seen.add(e)
        h = hash(str(e))
        hs[depth].append(h)
        if ck.state(lambda: _raw3(k, x, y), e, ref, depth):
            nts[depth].append(h)
        s = State(k, x, y, e, depth)
        s.vec = ref
        return s

    for a in primaries(3)[lo:hi]:
        un, rs, ls = level_cfg(3, a, cfg)
        small = bool(un4) and _small(raw_of(a)) and _NVARS[a.vars] <= 2
        for k, x, y, op in transitions(a, un, rs, ls):
            s3 = visit(k, x, y, a, 3)
            if s3 is not None and small and op in _DIVMOD:
                for k4, x4, y4, _ in transitions(s3, un4, (), ()):
                    visit(k4, x4, y4, s3, 4)
        a.vec = None
    ck.flush()
    return st, hs[3], nts[3], hs[4], nts[4]


def _same(p, q) -> bool:
    if isinstance(p, int) or isinstance(q, int) or p is None or q is None:
        return type(p) is type(q) and p == q
    return p is q


def _path(s: State):
    """Position of a state in LEVELS (picklable handle)."""
    return (s.depth, _G["levels"][s.depth].index(s))


def _small(raw) -> bool:
    """Restriction for the deepest levels: every constant / int operand of the tree is in {-1, 2, 3}."""
    k = raw[0]
    if k in ("d", "s"):
        return True
    if k in ("c", "i"):
        return raw[1] in (-1, 2, 3)
    return all(_small(c) for c in raw[1:])


# ----------------------------------------------------------------------------- flattener local-variable reuse family
REUSE_K = (1, 2, 3, 4, 6)
REUSE_C = (0, 1)
REUSE_M = (2, 3, 4, 6)
REUSE_MULT = (1, -1, 2, 3, 6)


def reuse_terms(mults):
    """((k*d0 + c) op m) [* mu]: op in mod / floordiv / ceildiv; gcd(k, m) > 1 occurs; raw trees in generator order."""
    out = []
    for op in ("mod", "fdiv", "cdiv"):
        for k in REUSE_K:
            for c in REUSE_C:
                for m in REUSE_M:
                    n = ("d", 0) if k == 1 else ("mul", ("d", 0), ("i", k))
                    if c:
                        n = ("add", n, ("i", c))
                    t = (op, n, ("i", m))
                    for mu in mults:
                        out.append(t if mu == 1 else ("mul", t, ("i", mu)))
    return out


def _shard_reuse(task):
    """All sums and differences  left[lo:hi] (+|-) right[*]  of two div/mod terms over d0: build oracle on the pair and
    simplify() under every (nd, ns) setting against the reference (the second term re-uses the flattener's locals)."""
    lo, hi, seed = task
    cfg = _G["cfg"]
    index = _G["index"]
    st = Stats()
    seen: set = set()
    hs, nts = array("q"), array("q")
    n = 0
    for a in _G["reuse_left"][lo:hi]:
        for b in _G["reuse_right"]:
            for k in ("add", "sub"):
                r = do_transition(st, k, a, b, a)
                if r is None or r[0] == "bad":
                    continue
                e, ref = r
                if e in index or e in seen:
                    st.bump("duplicate_states_merged")
                    continue
                seen.add(e)
                h = hash(str(e))
                hs.append(h)
                if any(v != ref[0] for v in ref):
                    nts.append(h)
                st.max_depth = max(st.max_depth, 1 + max(a.depth, b.depth))
                if _simplify_bad(st, e, ref, cfg["sizes"]) is not None:
                    check_simplify(st, _raw3(k, a, b), e, ref, cfg["sizes"])
                st.outcomes["reuse-family:simplified"] += 1
                n += 1
                if (n + 131 * seed + 7 * lo) % 4999 == 0:
                    st.sample({"tree": pretty(_raw3(k, a, b)), "built": str(e), "family": "flattener-local-reuse"})
    return st, hs, nts


# ----------------------------------------------------------------------------- composition checks
def k_set():
    """Small fixed set of replacement expressions (raw trees of the same language, every operator present)."""
    d0, d1, s0 = ("d", 0), ("d", 1), ("s", 0)
    return [
        d0, d1, s0, ("c", 0), ("c", -1), ("c", 2),
        ("add", d0, d1), ("sub", d1, d0), ("add", s0, ("i", 1)), ("mul", d0, ("i", 2)), ("neg", s0),
        ("fdiv", d1, ("i", 2)), ("cdiv", d0, ("i", 3)), ("mod", s0, ("i", 2)),
        ("mul", ("add", d0, s0), ("c", 3)), ("add", ("mod", d1, ("i", 3)), ("c", -2)),
    ]


def _points(nd: int, ns: int, mask: int):
    axes = [RNG if mask & (1 << i) else (0,) for i in range(nd + ns)]
    for p in itertools.product(*axes):
        yield p[:nd], p[nd:]


def _mask_in(raw, nd: int, sym_map) -> int:
    """Variables of raw tree `raw` as a mask of the result space (dims 0..nd-1, then symbols), its s_j being
    result symbol sym_map[j]."""
    m = raw_vars(raw)
    return (m & 3) | ((1 << (nd + sym_map[0])) if m & 4 else 0)


def _compose_compare(st: Stats, api: str, subj_raws, dim_repl, sym_repl, res_exprs, nd: int, ns: int,
                     inner_map, outer_map, wit) -> bool:
    """Library results `res_exprs` (expressions over nd dims, ns symbols) against the reference composition
        subject_j(dims', syms')  with  dims'[i] = dim_repl[i](dims, inner syms) for i < len(dim_repl), else dims[i]
                                       syms'    = sym_repl(dims, inner syms) if given, else the outer symbols,
    where the replacement expressions see result symbol inner_map[j] as their s_j and the subject sees result symbol
    outer_map[j] as its (not replaced) s_j.  Every point of [-4,4]^(nd+ns) projected on the variables that occur
    in the library result or can influence the reference."""
    mask = 0
    for r in res_exprs:
        mask |= lib_vars(r, nd)
    if mask >= (1 << (nd + ns)):
        st.violate(f"C26|compose|{api}|result-uses-unknown-variable", f"{api} result mentions a variable outside its space",
                   {**wit, "results": [str(r) for r in res_exprs]})
        return False
    for sr in subj_raws:
        u = raw_vars(sr)
        for i in (0, 1):
            if u & (1 << i):
                mask |= _mask_in(dim_repl[i], nd, inner_map) if i < len(dim_repl) else (1 << i)
        if u & 4:
            mask |= _mask_in(sym_repl[0], nd, inner_map) if sym_repl is not None else (1 << (nd + outer_map[0]))
    for dims, syms in _points(nd, ns, mask):
        inner_s = tuple(syms[j] for j in inner_map)
        dvals = [ref_eval(r, dims, inner_s) for r in dim_repl] + list(dims[len(dim_repl):])
        svals = [ref_eval(r, dims, inner_s) for r in sym_repl] if sym_repl is not None else tuple(syms[j] for j in outer_map)
        for j, (sr, le) in enumerate(zip(subj_raws, res_exprs)):
            exp = ref_eval(sr, dvals, svals)
            try:
                got = le.eval(dims, syms)
            except Exception as ex:  # noqa: BLE001
                got = f"eval raised {type(ex).__name__}"
            st.evaluations += 1
            if got != exp:
                # attribution: the same substitution written as one expression tree and built with the overloads --
                # if that tree is already built wrongly the defect is in the builder (reported there), not in compose
                if not sound(st, _subst(sr, dim_repl, sym_repl)):
                    st.bump("compose_mismatch_explained_by_build_defect")
                    return False
                st.violate(f"C26|compose|{api}|value-differs",
                           f"{api}: composed expression {le} differs from the reference composition",
                           {**wit, "result": str(le), "result_index": j, "dims": list(dims), "symbols": list(syms),
                            "expected": exp, "got": got})
                return False
    st.outcomes[f"compose:{api}:ok"] += 1
    return True


def _subst(t, dim_repl, sym_repl):
    """Raw tree of the subject with its dims / symbols textually replaced (symbol renaming of map composition ignored)."""
    k = t[0]
    if k == "d":
        return dim_repl[t[1]] if t[1] < len(dim_repl) else t
    if k == "s":
        return sym_repl[t[1]] if sym_repl is not None and t[1] < len(sym_repl) else t
    if k in ("c", "i"):
        return t
    return (k,) + tuple(_subst(c, dim_repl, sym_repl) for c in t[1:])


def _needs(raw) -> tuple[bool, bool, bool]:
    m = raw_vars(raw)
    return bool(m & 1), bool(m & 2), bool(m & 4)


_SOUND: dict = {}
_BUILT: dict = {}


def built(raw):
    e = _BUILT.get(raw)
    if e is None:
        e = _BUILT[raw] = build(raw)
    return e


def sound(st: Stats, raw) -> bool:
    """Precondition of the composition checks: the operand itself is built correctly (oracle 1, innermost failure is
    reported with its build signature); composition with a wrongly built operand is skipped and counted."""
    ok = _SOUND.get(raw)
    if ok is None:
        tmp = Stats()
        ok = _SOUND[raw] = _rebuild(tmp, raw) is not None
        for sig, v in tmp.violations.items():
            st.violate(sig, v["what"], v["witness"])
    if not ok:
        st.bump("compose_skipped_operand_built_wrongly")
    return ok


def _call(st: Stats, api: str, wit, fn):
    """Run one composition API call; NotImplementedError = documented limitation (skipped, counted)."""
    st.executions += 1
    st.transitions += 1
    try:
        return fn()
    except NotImplementedError:
        st.bump("skipped_compose_not_implemented")
    except Exception as ex:  # noqa: BLE001
        st.violate(f"C26|compose|{api}|raises-{type(ex).__name__}", f"{api} raised {type(ex).__name__}", {**wit, "error": str(ex)[:200]})
    return None


def expr_compose_case(st: Stats, subj_raw, res_raws) -> None:
    """subject.compose((d0, d1)[s0] -> res_raws): dims of the subject are replaced by the map's results, symbols stay."""
    from xdsl.ir.affine import AffineMap

    if not all([sound(st, r) for r in [subj_raw, *res_raws]]):
        return
    m = AffineMap(2, 1, tuple(built(r) for r in res_raws))
    wit = {"check": "compose", "api": "AffineExpr.compose", "subject": tolist(subj_raw), "pretty": pretty(subj_raw),
           "map_results": [tolist(r) for r in res_raws], "map": str(m)}
    r = _call(st, "AffineExpr.compose", wit, lambda: built(subj_raw).compose(m))
    if r is not None:
        _compose_compare(st, "AffineExpr.compose", [subj_raw], list(res_raws), None, [r], 2, 1, (0,), (0,), wit)


def expr_replace_case(st: Stats, subj_raw, nd_raws, ns_raws) -> None:
    """subject.replace_dims_and_symbols(new_dims, new_symbols) with full-length lists (2 dims, 1 symbol)."""
    if not all([sound(st, r) for r in [subj_raw, *nd_raws, *ns_raws]]):
        return
    wit = {"check": "compose", "api": "AffineExpr.replace_dims_and_symbols", "subject": tolist(subj_raw),
           "pretty": pretty(subj_raw), "new_dims": [tolist(r) for r in nd_raws], "new_symbols": [tolist(r) for r in ns_raws]}
    r = _call(st, "AffineExpr.replace_dims_and_symbols", wit,
              lambda: built(subj_raw).replace_dims_and_symbols([built(x) for x in nd_raws], [built(x) for x in ns_raws]))
    if r is not None:
        _compose_compare(st, "AffineExpr.replace_dims_and_symbols", [subj_raw], list(nd_raws), list(ns_raws), [r], 2, 1, (0,), (0,), wit)


def check_expr_compose(st: Stats, subj_raw, K) -> None:
    """AffineExpr.compose(map) and AffineExpr.replace_dims_and_symbols for one subject and every replacement
    tuple from K that differs on a variable occurring in the subject (the others are replaced by themselves)."""
    u0, u1, us = _needs(subj_raw)
    r0s = K if u0 else K[0:1]
    r1s = K if u1 else K[1:2]
    # --- expr.compose(map): documented for maps with at least as many results as dims used; symbols are kept
    if not u1:
        for k0 in r0s:
            expr_compose_case(st, subj_raw, (k0,))
    for k0 in r0s:
        for k1 in r1s:
            expr_compose_case(st, subj_raw, (k0, k1))
    # --- expr.replace_dims_and_symbols(new_dims, new_symbols)
    rss = K if us else K[2:3]
    r1r = r1s
    if u0 and u1 and us:                  # all three variables occur: thin out the 16^3 replacement tuples
        r1r = K[::2]
        rss = (K[2], K[10], K[14])
    for k0 in r0s:
        for k1 in r1r:
            for k2 in rss:
                expr_replace_case(st, subj_raw, (k0, k1), (k2,))


def check_map_compose(st: Stats, subj_raws, other_raws) -> None:
    """AffineMap.compose: self = (d0..)[s0] -> subj_raws, other = (d0, d1)[s0] -> other_raws.
    Result: (d0, d1)[s0 (self's), s1 (other's s0)]."""
    from xdsl.ir.affine import AffineMap

    if not all([sound(st, r) for r in list(subj_raws) + list(other_raws)]):
        return
    nres = len(other_raws)
    self_map = AffineMap(nres, 1, tuple(built(r) for r in subj_raws))
    other = AffineMap(2, 1, tuple(built(r) for r in other_raws))
    wit = {"check": "compose", "api": "AffineMap.compose", "self_results": [tolist(r) for r in subj_raws],
           "other_results": [tolist(r) for r in other_raws], "self": str(self_map), "other": str(other)}
    c = _call(st, "AffineMap.compose", wit, lambda: self_map.compose(other))
    if c is None:
        return
    if (c.num_dims, c.num_symbols, len(c.results)) != (2, 2, len(subj_raws)):
        st.violate("C26|compose|AffineMap.compose|arity-differs",
                   "composed map does not have other's dims and the concatenated symbols", {**wit, "composed": str(c)})
        return
    # other's s0 is result symbol 1 (inner), self's s0 stays result symbol 0 (outer)
    if not _compose_compare(st, "AffineMap.compose", list(subj_raws), list(other_raws), None, list(c.results), 2, 2, (1,), (0,), wit):
        return
    # AffineMap.eval of the composed map (the other observation function) on the corners {-4, 3}^4
    for a, b, sa, sb in itertools.product((LO, HI - 1), repeat=4):
        st.evaluations += 1
        exp = tuple(ref_eval(sr, [ref_eval(r, (a, b), (sb,)) for r in other_raws], (sa,)) for sr in subj_raws)
        try:
            got = tuple(c.eval((a, b), (sa, sb)))
        except Exception as ex:  # noqa: BLE001
            got = f"raised {type(ex).__name__}"
        if got != exp:
            st.violate("C26|compose|AffineMap.eval|value-differs", "AffineMap.eval of the composed map differs from the reference",
                       {**wit, "composed": str(c), "dims": [a, b], "symbols": [sa, sb], "expected": list(exp),
                        "got": list(got) if isinstance(got, tuple) else got})
            return


def check_map_replace(st: Stats, subj_raws, nd_raws, ns_raw) -> None:
    """AffineMap.replace_dims_and_symbols(new_dims, new_symbols, 2, 1)."""
    from xdsl.ir.affine import AffineMap

    if not all([sound(st, r) for r in list(subj_raws) + list(nd_raws) + [ns_raw]]):
        return
    m = AffineMap(2, 1, tuple(built(r) for r in subj_raws))
    wit = {"check": "compose", "api": "AffineMap.replace_dims_and_symbols", "self_results": [tolist(r) for r in subj_raws],
           "new_dims": [tolist(r) for r in nd_raws], "new_symbols": [tolist(ns_raw)]}
    c = _call(st, "AffineMap.replace_dims_and_symbols", wit,
              lambda: m.replace_dims_and_symbols([built(r) for r in nd_raws], [built(ns_raw)], 2, 1))
    if c is None:
        return
    if (c.num_dims, c.num_symbols, len(c.results)) != (2, 1, len(subj_raws)):
        st.violate("C26|compose|AffineMap.replace_dims_and_symbols|arity-differs", "wrong result arity", {**wit, "result": str(c)})
        return
    _compose_compare(st, "AffineMap.replace_dims_and_symbols", list(subj_raws), list(nd_raws), [ns_raw], list(c.results), 2, 1,
                     (0,), (0,), wit)


def check_inverse_permutation(st: Stats, res_raws) -> None:
    """m = (d0, d1) -> res ; if m.inverse_permutation() is a map, it composed with m is the identity."""
    from xdsl.ir.affine import AffineMap

    if not all([sound(st, r) for r in res_raws]):
        return
    m = AffineMap(2, 0, tuple(built(r) for r in res_raws))
    wit = {"check": "inverse_permutation", "results": [tolist(r) for r in res_raws], "map": str(m)}
    st.executions += 1
    st.transitions += 1
    try:
        inv = m.inverse_permutation()
    except Exception as ex:  # noqa: BLE001
        st.violate(f"C26|inverse_permutation|raises-{type(ex).__name__}", f"inverse_permutation raised {type(ex).__name__}",
                   {**wit, "error": str(ex)[:200]})
        return
    if inv is None:
        st.outcomes["inverse_permutation:None"] += 1
        return
    st.outcomes["inverse_permutation:map"] += 1
    try:
        comp = inv.compose(m)
    except Exception as ex:  # noqa: BLE001
        st.violate(f"C26|inverse_permutation|compose-raises-{type(ex).__name__}", "inverse.compose(map) raised",
                   {**wit, "inverse": str(inv), "error": str(ex)[:200]})
        return
    for a in RNG:
        for b in RNG:
            st.evaluations += 1
            mid = tuple(ref_eval(r, (a, b), ()) for r in res_raws)
            got1 = tuple(inv.eval(mid, ()))
            got2 = tuple(comp.eval((a, b), ()))
            if got1 != (a, b) or got2 != (a, b):
                st.violate("C26|inverse_permutation|not-left-inverse",
                           "inverse_permutation(m) applied after m is not the identity",
                           {**wit, "inverse": str(inv), "composed": str(comp), "point": [a, b], "got_eval": list(got1), "got_composed": list(got2)})
                return


def _shard_compose(task):
    kind, payload = task
    st = Stats()
    K = k_set()
    if kind == "expr":
        for raw in payload:
            check_expr_compose(st, raw, K)
    elif kind == "map":
        subj_list, others = payload
        for subj in subj_list:
            for o in others:
                if len(o) == 1 and any(raw_vars(r) & 2 for r in subj):
                    continue                      # self would use d1 but other has a single result
                check_map_compose(st, subj, o)
    elif kind == "mapreplace":
        for subj, nd, ns in payload:
            check_map_replace(st, subj, nd, ns)
    elif kind == "invperm":
        for res in payload:
            check_inverse_permutation(st, res)
    return st


# ----------------------------------------------------------------------------- driver
def _count_distinct(arrs) -> int:
    buckets = [array("q") for _ in range(64)]
    for a in arrs:
        for h in a:
            buckets[h & 63].append(h)
    return sum(len(set(b)) for b in buckets)


def _dbg(msg: str) -> None:
    if os.environ.get("C26_DEBUG"):
        print(f"[c26 {time.strftime('%H:%M:%S')}] {msg}", file=sys.stderr, flush=True)


def tier_cfg(quick: bool):
    if quick:
        return {"sizes": SIMPLIFY_SIZES, "l3_prims": "small2", "l3_unary": "dm9", "l3_unary_3var": "none", "l3_leaves": False,
                "l3_divmod_partners": False, "l4_unary": "none", "reuse_left_mults": REUSE_MULT, "reuse_right_mults": (1,)}
    return {"sizes": SIMPLIFY_SIZES, "l3_prims": "all", "l3_unary": "all", "l3_unary_3var": "all", "l3_leaves": True,
            "l3_divmod_partners": True, "l4_unary": "dm8", "reuse_left_mults": REUSE_MULT, "reuse_right_mults": REUSE_MULT}


def generate(ctx, cfg) -> dict:
    """Levels 0..2: registration in the parent (global canonical de-dup), checks in workers; levels 3..4 in workers."""
    _G["levels"] = []
    _G["index"] = {}
    _G["cfg"] = cfg
    _VCACHE.clear()
    st = Stats()
    ck = Checker(st, cfg["sizes"], ctx.seed)
    lvl0 = []
    for t in LEAVES:
        s = State(t[0], t[1], None, build_leaf(t), 0)
        ref = vec_of(s)
        got = lib_vec(st, s.expr)
        st.executions += 1
        st.evaluations += NPTS
        if got != ref:
            st.violate(f"C26|build|leaf|{shape(s.expr)}|value-differs", f"leaf {pretty(t)} evaluates wrongly",
                       {"check": "build", "tree": tolist(t), "pretty": pretty(t)})
            s.bad = True
        if s.expr not in _G["index"]:
            _G["index"][s.expr] = s
            lvl0.append(s)
            if not s.bad and ck.state(lambda t=t: t, s.expr, ref, 0):
                st.nontrivial += 1
    ck.flush()
    _G["levels"].append(lvl0)
    ctx.merge(st)
    for depth in (1, 2):
        register_level(depth, cfg)
        gc.collect()
        gc.freeze()                     # forked workers must not copy the parent's heap when their GC runs
        n = len(primaries(depth))
        tasks = [(depth, lo, lo + 1, ctx.seed) for lo in range(n)]
        for _, (wst, tainted) in pmap(_shard_level, tasks):
            ctx.merge(wst)
            for d, i in tainted:
                _G["levels"][d][i].bad = True
        _dbg(f"level {depth}: {len(_G['levels'][depth])} states")
    # other map spaces for the printer / parser: no symbol list at all, and more dims / symbols than used
    st = Stats()
    for s in _good(_G["levels"][0] + _G["levels"][1]):
        # harness self-checks on the small states: vector reference == scalar reference; projected eval == eval on all points
        raw = raw_of(s)
        if vec_of(s) != [ref_eval(raw, (p[0], p[1]), (p[2],)) for p in PTS]:
            raise AssertionError(f"c26 harness: vector and scalar reference disagree on {pretty(raw)}")
        st.evaluations += NPTS
        if lib_vec(st, s.expr) != [s.expr.eval((p[0], p[1]), (p[2],)) for p in PTS]:
            st.violate("C26|eval|absent-variable|value-differs", f"eval of {s.expr} depends on a variable that does not occur in it",
                       {"check": "build", "tree": tolist(raw), "pretty": pretty(raw), "built": str(s.expr)})
        for nd, ns in ((2, 0), (3, 2), (2, 2)):
            if ns == 0 and raw_vars(raw_of(s)) & 4:
                continue
            if report_pp(st, lambda s=s: raw_of(s), s.expr, vec_of(s), nd, ns):
                st.outcomes[f"print-parse:space({nd},{ns}):ok"] += 1
    ctx.merge(st)
    # depth-1 div/mod states with divisor 2 or 3: extra right partners of level 3 (thorough)
    _G["divmod_partners"] = [s for s in _good(_G["levels"][1]) if s.k in ("fdiv", "cdiv", "mod") and _small(raw_of(s))]
    n = len(primaries(3))
    chunk = 16
    hashes = {"h3": [], "nt3": [], "h4": [], "nt4": []}
    for _, (wst, h3, nt3, h4, nt4) in pmap(_shard_deep, [(lo, min(n, lo + chunk), ctx.seed) for lo in range(0, n, chunk)]):
        ctx.merge(wst)
        for key, arr in (("h3", h3), ("nt3", nt3), ("h4", h4), ("nt4", nt4)):
            if len(arr):
                hashes[key].append(arr)
    # flattener local-variable reuse family (sums / differences of two div/mod terms over d0)
    st = Stats()
    for side, mults in (("reuse_left", cfg["reuse_left_mults"]), ("reuse_right", cfg["reuse_right_mults"])):
        terms = [_rebuild(st, t) for t in reuse_terms(mults)]      # oracle 1 on every term (innermost failure reported)
        _G[side] = [t for t in terms if t is not None]
    ctx.merge(st)
    nl = len(_G["reuse_left"])
    hashes["hr"], hashes["ntr"] = [], []
    for _, (wst, hr, ntr) in pmap(_shard_reuse, [(lo, min(nl, lo + 4), ctx.seed) for lo in range(0, nl, 4)]):
        ctx.merge(wst)
        hashes["hr"].append(hr)
        hashes["ntr"].append(ntr)
    _dbg("reuse family done")
    return hashes


def run(ctx):
    quick = ctx.quick
    cfg = tier_cfg(quick)
    hashes = generate(ctx, cfg)
    _dbg("generator tree done")
    levels = _G["levels"]
    n_reg = sum(len(l) for l in levels)
    n34 = _count_distinct(hashes["h3"] + hashes["h4"])
    n34r = _count_distinct(hashes["h3"] + hashes["h4"] + hashes["hr"])
    ctx.stats.states = n_reg + n34r
    ctx.stats.nontrivial += _count_distinct(hashes["nt3"] + hashes["nt4"] + hashes["ntr"])
    ctx.stats.bump("reuse_family_states", n34r - n34)
    for d, l in enumerate(levels):
        ctx.stats.bump(f"level{d}_states", len(l))
    ctx.stats.bump("level3_states", _count_distinct(hashes["h3"]))
    ctx.stats.bump("level4_states_not_in_level3", n34 - _count_distinct(hashes["h3"]))
    ctx.stats.bump("tainted_states_not_expanded", sum(1 for l in levels for s in l if s.bad))

    # ---- composition
    K = k_set()
    subj = [raw_of(s) for s in levels[0] + levels[1] if not s.bad]
    if not quick:
        # level-2 subjects built from K itself (they use both dims and the symbol frequently)
        for a in K:
            for b in K[::2]:
                subj.append(("add", a, b))
                subj.append(("sub", a, b))
            for k in ("fdiv", "cdiv", "mod"):
                for v in (2, 3):
                    subj.append((k, a, ("i", v)))
            subj.append(("mul", a, ("i", -2)))
            subj.append(("neg", a))
    ctasks = [("expr", subj[i:i + 4]) for i in range(0, len(subj), 4)]
    maps1 = [(a,) for a in K]
    maps2 = [(a, b) for a in K for b in K]
    msub = [(r,) for r in K] + [(a, b) for a in K[6:10] for b in K[10:14]]
    if not quick:
        msub += [(("add", a, b),) for a in K[3:] for b in K[:3]]
    others = maps1 + maps2
    if quick:
        others = maps1 + [(a, b) for a in K for b in K[::2]]
    for i in range(0, len(msub), 2):
        ctasks.append(("map", (msub[i:i + 2], others)))
    rep = [((a, b), (x, y), z) for a, b in [(K[6], K[8]), (K[14], K[11]), (K[13], K[7])] for x in K for y in (K[::2] if quick else K)
           for z in ((K[2], K[10], K[14]) if quick else K[:8:2] + K[8:9])]
    for i in range(0, len(rep), 256):
        ctasks.append(("mapreplace", rep[i:i + 256]))
    PK = [("d", 0), ("d", 1), ("c", 0), ("add", ("d", 0), ("d", 1))]
    inv = [tuple(c) for n in range(0, 5) for c in itertools.product(PK, repeat=n)]
    ctasks.append(("invperm", inv))
    for _, wst in pmap(_shard_compose, ctasks):
        ctx.merge(wst)
    _dbg("composition done")

    ctx.bounds = {
        "leaves": [pretty(t) for t in LEAVES], "int_operands": list(INTS), "divisors": list(DIVS),
        "box": f"[{LO},{HI}]^3 = {NPTS} points",
        "depth_full": 2,
        "depth3": {
            "int_operand_forms": [f"{k}:{v}:{side}" for k, v, side in UNARY_SETS[cfg["l3_unary"]]],
            "on": ("all depth-2 states" if cfg["l3_unary_3var"] == cfg["l3_unary"] else
                   "all depth-2 states that mention at most 2 of d0,d1,s0; on those that mention all 3 only "
                   + ",".join(f"{k}:{v}" for k, v, _ in UNARY_SETS[cfg["l3_unary_3var"]])) if cfg["l3_prims"] == "all"
            else "depth-2 states whose constants / int operands are all in {-1,2,3} and that mention at most 2 of d0,d1,s0",
            "binary_with_a_leaf_on_either_side": "on depth-2 states whose constants are in {-1,2,3}, result mentions <= 2 variables"
            if cfg["l3_leaves"] else "no",
            "plus_minus_a_depth1_divmod_state_on_the_right": ("on depth-2 states whose constants are in {-1,2,3}, result mentions <= 2 "
                                                              "variables; partners: " + ", ".join(str(s.expr) for s in _G["divmod_partners"]))
            if cfg["l3_divmod_partners"] else "no"},
        "depth4": {"int_operand_forms": [f"{k}:{v}:{side}" for k, v, side in UNARY_SETS[cfg["l4_unary"]]],
                   "on": "depth-3 states reached by " + ",".join(f"{k}:{v}" for k, v, _ in UNARY_DIVMOD)
                         + " from depth-2 states with constants in {-1,2,3} that mention <= 2 variables"},
        "flattener_reuse_family": {
            "term": "((k*d0 + c) op m) [* mu], op in mod/floordiv/ceil_div, k in %s, c in %s, m in %s" % (list(REUSE_K), list(REUSE_C), list(REUSE_M)),
            "left_multipliers": list(cfg["reuse_left_mults"]), "right_multipliers": list(cfg["reuse_right_mults"]),
            "pairs": "every ordered pair left (+|-) right: %d" % (2 * len(_G["reuse_left"]) * len(_G["reuse_right"])),
            "checks": "build oracle on every term and pair, simplify under every size"},
        "simplify_sizes": [list(x) for x in cfg["sizes"]],
        "compose_subjects": len(subj), "replacement_set": [pretty(t) for t in K],
        "map_compose_pairs": len(msub) * len(others), "inverse_permutation_maps": len(inv),
    }
    ctx.rule = ("generator tree: level 0 = leaves, level k+1 = every in-domain operator overload applied to a level-k state and a "
                "state of level <= k (complete for k+1 <= 2; level 3 / 4 = neg and python-int operand forms, in thorough also "
                "(op) leaf on either side, see bounds); states = distinct built library expressions (structural equality, first "
                "reaching tree owns the state), transitions = overload applications + compose/replace calls; every transition is "
                "compared with the reference on all 729 points, every state is simplified (2 sizes) and printed/re-parsed; "
                "non-trivial = distinct built expression whose reference value is not constant over the box")
    ctx.assumptions = [
        "reference evaluator ref_eval/ref_vec_op in props/c26.py (Python // and % for positive divisors, ceildiv = -((-a)//b))",
        "AffineExpr.eval is the observation function; it is called on the box projected on the variables occurring in the "
        "expression and the value is reused for points differing only in non-occurring variables",
        "python-int divisors/multipliers and constant-expression operands are both exercised; int - expr is out of scope",
        "a transition whose built value is wrong is reported and the state it owns is not expanded (innermost failure only)",
    ]


# ----------------------------------------------------------------------------- replay
def _rebuild(st: Stats, t):
    """Bottom-up rebuild of a witness tree through do_transition; returns a State / int, or None after a failure."""
    k = t[0]
    if k == "i":
        return t[1]
    if k in ("d", "s", "c"):
        return State(k, t[1], None, build_leaf(t), 0)
    kids = [_rebuild(st, c) for c in t[1:]]
    if any(c is None for c in kids):
        return None
    x, y = kids[0], (kids[1] if len(kids) > 1 else None)
    # the generator's primary operand: the left one, except int-on-the-left forms and leaf (op) depth>=2 state
    prim = x
    if not isinstance(x, State) or (isinstance(y, State) and x.depth == 0 and y.depth >= 2):
        prim = y
    r = do_transition(st, k, x, y, prim)
    if r is None or r[0] == "bad":
        return None
    s = State(k, x, y, r[0], raw_depth(t))
    s.vec = r[1]
    return s


def replay(rep) -> bool:
    w = rep["witness"]
    st = Stats()
    chk = w.get("check")
    if chk in ("build", "simplify", "print-parse"):
        raw = totuple(w["tree"])
        s = _rebuild(st, raw)
        if isinstance(s, State):
            ref = vec_of(s)
            if s.depth == 0 and lib_vec(st, s.expr) != ref:
                st.violate(rep["signature"], "leaf", {})
            if chk == "simplify":
                check_simplify(st, raw, s.expr, ref)
            if chk == "print-parse":
                report_pp(st, lambda: raw, s.expr, ref, w.get("num_dims", 2), w.get("num_symbols", 1))
    elif chk == "compose":
        api = w["api"]
        if api == "AffineExpr.compose":
            expr_compose_case(st, totuple(w["subject"]), [totuple(r) for r in w["map_results"]])
        elif api == "AffineExpr.replace_dims_and_symbols":
            expr_replace_case(st, totuple(w["subject"]), [totuple(r) for r in w["new_dims"]], [totuple(r) for r in w["new_symbols"]])
        elif api in ("AffineMap.compose", "AffineMap.eval"):
            check_map_compose(st, [totuple(r) for r in w["self_results"]], [totuple(r) for r in w["other_results"]])
        else:
            check_map_replace(st, [totuple(r) for r in w["self_results"]], [totuple(r) for r in w["new_dims"]], totuple(w["new_symbols"][0]))
    elif chk == "inverse_permutation":
        check_inverse_permutation(st, [totuple(r) for r in w["results"]])
    return rep["signature"] not in st.violations
