"""C26 — affine expression algebra preserves values.

Generator-tree enumeration (exhaustive within the stated bound, no sampling) of affine expression trees
built WITH THE OPERATOR OVERLOADS of AffineExpr over leaves {d0, d1, s0, constants -2..3}:
`+` (expr+expr, expr+int, int+expr), `-` with the expression on the LEFT (expr-expr, expr-int), unary `-`,
`*` where one side is a constant (python int or constant expression), `//`, `ceil_div`, `%` by POSITIVE
constants 1..4 (python int or constant expression).  `int - expr` is outside the property and never built.

Next to every built expression the harness keeps its own raw AST and the vector of reference values of that
AST on the full box [-4,4]^3 (729 points; floor division / modulo with Python semantics for positive
divisors, ceildiv(a,b) = -((-a)//b)).  Oracles:
 (1) build     : AffineExpr.eval of the built (eagerly simplified) expression == reference of the raw tree;
 (2) simplify  : the same after AffineExpr.simplify(nd, ns);
     compose   : AffineExpr.compose / replace_dims_and_symbols / AffineMap.compose /
                 AffineMap.replace_dims_and_symbols with replacement expressions from a small fixed set of
                 the same tree language == reference composition; inverse_permutation() is a left inverse;
 (3) print-parse: AffineMapAttr -> text -> Parser.parse_attribute (AffineParser) -> eval == reference.

States are the distinct built expressions (structural equality of the library objects); a level-k state is
expanded only once.  Values of a library expression are obtained with the library's own AffineExpr.eval at
every point of the box projected on the variables that occur in it (a point that differs only in a variable
that does not occur in the expression cannot be distinguished by eval) and compared with the reference at
all 729 points.
"""
from __future__ import annotations

import itertools
from array import array

from mc.stats import Stats
from mc.pool import pmap

# ----------------------------------------------------------------------------- bounded space
LO, HI = -4, 4
RNG = tuple(range(LO, HI + 1))
N1 = len(RNG)
PTS = [(a, b, c) for a in RNG for b in RNG for c in RNG]          # (d0, d1, s0)
NPTS = len(PTS)
INTS = tuple(range(-2, 4))
DIVS = (1, 2, 3, 4)
LEAVES = [("d", 0), ("d", 1), ("s", 0)] + [("c", v) for v in INTS]
VARBIT = {("d", 0): 1, ("d", 1): 2, ("s", 0): 4}

# per variable mask: the projected point list (unused variables fixed to 0) and the expansion table
PROJ: dict[int, list[tuple[tuple[int, int], tuple[int]]]] = {}
EXPAND: dict[int, list[int]] = {}
for _m in range(8):
    _ax = [RNG if _m & (1 << i) else (0,) for i in range(3)]
    _pp = list(itertools.product(*_ax))
    _ix = {p: i for i, p in enumerate(_pp)}
    PROJ[_m] = [((p[0], p[1]), (p[2],)) for p in _pp]
    EXPAND[_m] = [_ix[tuple(p[i] if _m & (1 << i) else 0 for i in range(3))] for p in PTS]


# ----------------------------------------------------------------------------- reference semantics
def _cdiv(a: int, b: int) -> int:
    return -((-a) // b)


SOP = {
    "add": lambda a, b: a + b,
    "sub": lambda a, b: a - b,
    "mul": lambda a, b: a * b,
    "fdiv": lambda a, b: a // b,          # b > 0: floor
    "cdiv": _cdiv,                        # b > 0: ceiling
    "mod": lambda a, b: a % b,            # b > 0: result in [0, b)
}


def ref_eval(t, d, s) -> int:
    """Reference value of a raw tree at dims d, symbols s."""
    k = t[0]
    if k == "d":
        return d[t[1]]
    if k == "s":
        return s[t[1]]
    if k == "c" or k == "i":
        return t[1]
    if k == "neg":
        return -ref_eval(t[1], d, s)
    return SOP[k](ref_eval(t[1], d, s), ref_eval(t[2], d, s))


def ref_vec_leaf(t) -> list[int]:
    return [ref_eval(t, (p[0], p[1]), (p[2],)) for p in PTS]


def ref_vec_op(k: str, va, vb) -> list[int]:
    """Reference vector of a node from the reference vectors of its children (same semantics as SOP)."""
    if k == "neg":
        return [-x for x in va]
    if k == "add":
        return [x + y for x, y in zip(va, vb)]
    if k == "sub":
        return [x - y for x, y in zip(va, vb)]
    if k == "mul":
        return [x * y for x, y in zip(va, vb)]
    if k == "fdiv":
        return [x // y for x, y in zip(va, vb)]
    if k == "cdiv":
        return [-((-x) // y) for x, y in zip(va, vb)]
    if k == "mod":
        return [x % y for x, y in zip(va, vb)]
    raise AssertionError(k)


def raw_vars(t) -> int:
    k = t[0]
    if k in ("d", "s"):
        return VARBIT[(k, t[1])]
    if k in ("c", "i"):
        return 0
    m = 0
    for c in t[1:]:
        m |= raw_vars(c)
    return m


def raw_depth(t) -> int:
    if t[0] in ("d", "s", "c", "i"):
        return 0
    return 1 + max(raw_depth(c) for c in t[1:])


TOK = {"add": "+", "sub": "-", "mul": "*", "fdiv": "//", "cdiv": "ceil_div", "mod": "%"}


def pretty(t) -> str:
    k = t[0]
    if k in ("d", "s"):
        return f"{k}{t[1]}"
    if k == "c":
        return f"C({t[1]})"
    if k == "i":
        return f"{t[1]}"
    if k == "neg":
        return f"(-{pretty(t[1])})"
    if k == "cdiv":
        return f"{pretty(t[1])}.ceil_div({pretty(t[2])})"
    return f"({pretty(t[1])} {TOK[k]} {pretty(t[2])})"


def tolist(t):
    return [tolist(x) if isinstance(x, tuple) else x for x in t]


def totuple(t):
    return tuple(totuple(x) if isinstance(x, list) else x for x in t)


def op_form(t) -> str:
    k = t[0]
    name = {"add": "add", "sub": "sub", "mul": "mul", "fdiv": "floordiv", "cdiv": "ceil_div", "mod": "mod", "neg": "neg"}[k]
    if k == "neg":
        return name
    if t[1][0] == "i":
        return "int-" + name
    if t[2][0] == "i":
        return name + "-int"
    return name


# ----------------------------------------------------------------------------- library side
def build_leaf(t):
    from xdsl.ir.affine import AffineExpr

    k = t[0]
    if k == "d":
        return AffineExpr.dimension(t[1])
    if k == "s":
        return AffineExpr.symbol(t[1])
    if k == "c":
        return AffineExpr.constant(t[1])
    if k == "i":
        return t[1]
    raise AssertionError(t)


def apply_op(k: str, a, b):
    """The operator overloads under test."""
    if k == "neg":
        return -a
    if k == "add":
        return a + b
    if k == "sub":
        return a - b
    if k == "mul":
        return a * b
    if k == "fdiv":
        return a // b
    if k == "cdiv":
        return a.ceil_div(b)
    if k == "mod":
        return a % b
    raise AssertionError(k)


def build(t):
    k = t[0]
    if k in ("d", "s", "c", "i"):
        return build_leaf(t)
    if k == "neg":
        return apply_op(k, build(t[1]), None)
    return apply_op(k, build(t[1]), build(t[2]))


def shape(e) -> str:
    from xdsl.ir.affine import AffineBinaryOpExpr, AffineConstantExpr, AffineDimExpr, AffineSymExpr

    if isinstance(e, int):
        return "int"
    if isinstance(e, AffineConstantExpr):
        return "const"
    if isinstance(e, (AffineDimExpr, AffineSymExpr)):
        return "leaf"
    if isinstance(e, AffineBinaryOpExpr):
        return e.kind.name
    return type(e).__name__


def lib_vars(e, nd: int = 2) -> int:
    """Variable mask of a library expression (harness-side walker): dim i -> bit i, symbol j -> bit nd+j."""
    from xdsl.ir.affine import AffineBinaryOpExpr, AffineDimExpr, AffineSymExpr

    if isinstance(e, AffineBinaryOpExpr):
        return lib_vars(e.lhs, nd) | lib_vars(e.rhs, nd)
    if isinstance(e, AffineDimExpr):
        return 1 << e.position
    if isinstance(e, AffineSymExpr):
        return 1 << (nd + e.position)
    return 0


_VCACHE: dict = {}
_VCACHE_MAX = 40000


def lib_vec(st: Stats, e) -> list[int] | None:
    """Values of library expression `e` at all 729 points of the (d0, d1, s0) box, via AffineExpr.eval."""
    hit = _VCACHE.get(e)
    if hit is None:
        m = lib_vars(e)
        if m > 7:
            return None                                   # mentions a variable outside (d0, d1, s0)
        vals = [e.eval(d, s) for d, s in PROJ[m]]
        st.bump("lib_eval_calls", len(vals))
        if len(_VCACHE) >= _VCACHE_MAX:
            _VCACHE.clear()
        hit = _VCACHE[e] = (m, vals)
    m, vals = hit
    return [vals[j] for j in EXPAND[m]]


def first_diff(ref, got):
    for i, (x, y) in enumerate(zip(ref, got)):
        if x != y:
            p = PTS[i]
            return {"d0": p[0], "d1": p[1], "s0": p[2], "expected": x, "got": y}
    return None


def sub_exprs(e):
    from xdsl.ir.affine import AffineBinaryOpExpr

    if isinstance(e, AffineBinaryOpExpr):
        yield from sub_exprs(e.lhs)
        yield from sub_exprs(e.rhs)
    yield e


# ----------------------------------------------------------------------------- state checks
SIMPLIFY_SIZES = ((2, 1), (3, 2))


def _simplify_bad(st: Stats, e, ref, sizes) -> tuple | None:
    """Returns None if simplify preserves the value of e (whose value vector is ref), else (kind, detail)."""
    for nd, ns in sizes:
        st.executions += 1
        try:
            s = e.simplify(nd, ns)
        except NotImplementedError:
            st.bump("skipped_simplify_not_implemented")
            continue
        except Exception as ex:  # noqa: BLE001
            return (f"raises-{type(ex).__name__}", {"num_dims": nd, "num_symbols": ns, "error": str(ex)[:200]})
        got = lib_vec(st, s)
        st.evaluations += NPTS
        if got is None:
            return ("result-uses-unknown-variable", {"num_dims": nd, "num_symbols": ns, "simplified": str(s)})
        if got != ref:
            return ("value-differs", {"num_dims": nd, "num_symbols": ns, "simplified": str(s), **first_diff(ref, got)})
        st.outcomes["simplify:" + ("unchanged" if s == e else "changed")] += 1
    return None


def check_simplify(st: Stats, raw, e, ref, sizes=SIMPLIFY_SIZES) -> None:
    bad = _simplify_bad(st, e, ref, sizes)
    if bad is None:
        return
    # narrow the signature: smallest sub-expression (library structure) on which simplify already fails
    culprit, cbad = e, bad
    for sub in sub_exprs(e):
        if sub is e:
            break
        sref = lib_vec(st, sub)
        if sref is None:
            continue
        b = _simplify_bad(Stats(), sub, sref, sizes)
        if b is not None:
            culprit, cbad = sub, b
            break
    st.violate(f"C26|simplify|{shape(culprit)}|{cbad[0]}",
               f"simplify() of {culprit} does not preserve its value ({cbad[0]})",
               {"check": "simplify", "tree": tolist(raw), "pretty": pretty(raw), "built": str(e),
                "minimal_subexpr": str(culprit), **cbad[1]})


_PCTX = None


def _parse_map_attr(text: str):
    global _PCTX
    from xdsl.context import Context
    from xdsl.parser import Parser

    if _PCTX is None:
        _PCTX = Context()
    return Parser(_PCTX, text).parse_attribute()


def _roundtrip(st: Stats, exprs):
    """print -> parse of one affine_map attribute holding `exprs`; returns (kind, parsed results | detail)."""
    from xdsl.dialects.builtin import AffineMapAttr
    from xdsl.ir.affine import AffineMap

    attr = AffineMapAttr(AffineMap(2, 1, tuple(exprs)))
    text = str(attr)
    st.executions += 1
    try:
        back = _parse_map_attr(text)
    except Exception as ex:  # noqa: BLE001
        return (f"raises-{type(ex).__name__}", {"text": text[:300], "error": str(ex)[:200]})
    if not isinstance(back, AffineMapAttr):
        return ("not-an-affine-map", {"text": text[:300], "parsed": str(back)[:200]})
    m = back.data
    if (m.num_dims, m.num_symbols, len(m.results)) != (2, 1, len(exprs)):
        return ("arity-differs", {"text": text[:300], "parsed": str(m)[:300]})
    return ("ok", m.results)


def _pp_bad(st: Stats, e, ref):
    kind, res = _roundtrip(st, [e])
    if kind != "ok":
        return (kind, res)
    got = lib_vec(st, res[0])
    st.evaluations += NPTS
    if got is None:
        return ("result-uses-unknown-variable", {"printed": str(e), "parsed": str(res[0])})
    if got != ref:
        return ("value-differs", {"printed": str(e), "parsed": str(res[0]), **first_diff(ref, got)})
    return None


def check_print_parse(st: Stats, batch) -> None:
    """batch: list of (raw, expr, ref).  One attribute with all results; individual fallback on any problem."""
    if not batch:
        return
    kind, res = _roundtrip(st, [b[1] for b in batch])
    if kind == "ok":
        ok = True
        for (raw, e, ref), p in zip(batch, res):
            got = lib_vec(st, p)
            st.evaluations += NPTS
            if got != ref:
                ok = False
            else:
                st.outcomes["print-parse:" + ("identical" if p == e else "restructured")] += 1
        if ok:
            return
    for raw, e, ref in batch:
        bad = _pp_bad(st, e, ref)
        if bad is None:
            continue
        culprit, cbad = e, bad
        for sub in sub_exprs(e):
            if sub is e:
                break
            sref = lib_vec(st, sub)
            if sref is None:
                continue
            b = _pp_bad(Stats(), sub, sref)
            if b is not None:
                culprit, cbad = sub, b
                break
        st.violate(f"C26|print-parse|{shape(culprit)}|{cbad[0]}",
                   f"printing and re-parsing {culprit} does not preserve its value ({cbad[0]})",
                   {"check": "print-parse", "tree": tolist(raw), "pretty": pretty(raw), "built": str(e),
                    "minimal_subexpr": str(culprit), **cbad[1]})


# ----------------------------------------------------------------------------- generator tree
class State:
    __slots__ = ("raw", "expr", "vec", "const", "depth")

    def __init__(self, raw, expr, vec, depth):
        self.raw = raw
        self.expr = expr
        self.vec = vec
        self.depth = depth
        self.const = vec[0] if raw_vars(raw) == 0 else None     # closed tree: its (single) value


def int_operand(v: int):
    return (("i", v), v, [v] * NPTS)


UNARY_ALL = tuple(
    [("neg", None, None)]
    + [("add", v, "R") for v in INTS] + [("add", v, "L") for v in INTS]
    + [("sub", v, "R") for v in INTS]
    + [("mul", v, "R") for v in INTS] + [("mul", v, "L") for v in INTS]
    + [(k, v, "R") for k in ("fdiv", "cdiv", "mod") for v in DIVS]
)


def unary_transitions(a: State, ops=UNARY_ALL):
    """neg and the python-int operand forms on state a: yields (raw, thunk-args)."""
    for k, v, side in ops:
        if k == "neg":
            yield ("neg", a.raw), ("neg", a.expr, None), ("neg", a.vec, None), a.expr
        elif side == "R":
            yield (k, a.raw, ("i", v)), (k, a.expr, v), (k, a.vec, [v] * NPTS), a.expr
        else:
            yield (k, ("i", v), a.raw), (k, v, a.expr), (k, [v] * NPTS, a.vec), a.expr


def binary_transitions(a: State, b: State):
    """expression (op) expression forms that are inside the property's domain."""
    yield ("add", a.raw, b.raw), ("add", a.expr, b.expr), ("add", a.vec, b.vec), a.expr
    yield ("sub", a.raw, b.raw), ("sub", a.expr, b.expr), ("sub", a.vec, b.vec), a.expr
    if a.const is not None or b.const is not None:
        yield ("mul", a.raw, b.raw), ("mul", a.expr, b.expr), ("mul", a.vec, b.vec), (a.expr if b.const is not None else b.expr)
    if b.const is not None and 1 <= b.const <= 4:
        for k in ("fdiv", "cdiv", "mod"):
            yield (k, a.raw, b.raw), (k, a.expr, b.expr), (k, a.vec, b.vec), a.expr


def do_transition(st: Stats, tr, depth: int) -> State | None:
    """Build through the overload, compare with the reference (oracle 1); returns the reached State or None."""
    raw, (k, x, y), (_, vx, vy), primary = tr
    st.transitions += 1
    st.executions += 1
    form = op_form(raw)
    try:
        e = apply_op(k, x, y)
    except NotImplementedError:
        st.bump("skipped_build_not_implemented")
        st.outcomes["build:NotImplementedError"] += 1
        return None
    except Exception as ex:  # noqa: BLE001
        st.violate(f"C26|build|{form}|{shape(primary)}|raises-{type(ex).__name__}",
                   f"{pretty(raw)} raised {type(ex).__name__}",
                   {"check": "build", "tree": tolist(raw), "pretty": pretty(raw), "error": str(ex)[:200]})
        return None
    ref = ref_vec_op(k, vx, vy)
    got = lib_vec(st, e)
    st.evaluations += NPTS
    if got != ref:
        kind = "value-differs" if got is not None else "result-uses-unknown-variable"
        st.violate(f"C26|build|{form}|{shape(primary)}|{kind}",
                   f"{pretty(raw)} builds {e}, whose value differs from the expression tree that was written",
                   {"check": "build", "tree": tolist(raw), "pretty": pretty(raw), "built": str(e),
                    **(first_diff(ref, got) if got is not None else {})})
        return None                       # innermost failure only: a wrong result is not used as an operand
    st.outcomes[f"build:{form}:{shape(primary)}->{shape(e)}"] += 1
    return State(raw, e, ref, depth)


class Level:
    """Collector for the new states of one shard: de-dup, state checks, hashes for the global count."""

    def __init__(self, st: Stats, known, sizes, seed: int):
        self.st = st
        self.known = known            # set of library exprs expanded elsewhere (lower levels)
        self.seen: set = set()
        self.hashes = array("q")
        self.nt_hashes = array("q")
        self.batch: list = []
        self.sizes = sizes
        self.seed = seed
        self.n = 0

    def add(self, s: State) -> bool:
        e = s.expr
        if e in self.known or e in self.seen:
            self.st.bump("duplicate_states_merged")
            return False
        self.seen.add(e)
        h = hash(e)
        self.hashes.append(h)
        v0 = s.vec[0]
        if any(v != v0 for v in s.vec):
            self.nt_hashes.append(h)
        self.st.max_depth = max(self.st.max_depth, s.depth)
        check_simplify(self.st, s.raw, e, s.vec, self.sizes)
        self.batch.append((s.raw, e, s.vec))
        if len(self.batch) >= 24:
            self.flush()
        self.n += 1
        if (self.n + 131 * self.seed) % 1777 == 0:
            self.st.sample({"tree": pretty(s.raw), "built": str(e), "value_at_(1,2,3)": s.vec[(1 + 4) * 81 + (2 + 4) * 9 + 3 + 4]})
        return True

    def flush(self):
        check_print_parse(self.st, self.batch)
        self.batch = []


# globals shared with forked workers
_G: dict = {}


def make_levels01(st: Stats, sizes, seed: int):
    """Level 0 (leaves) and level 1 (every operator over leaves), in the parent."""
    lv = Level(st, set(), sizes, seed)
    s0 = []
    for t in LEAVES:
        s = State(t, build_leaf(t), ref_vec_leaf(t), 0)
        got = lib_vec(st, s.expr)
        st.executions += 1
        st.evaluations += NPTS
        if got != s.vec:
            st.violate(f"C26|build|leaf|{shape(s.expr)}|value-differs", f"leaf {pretty(t)} evaluates wrongly",
                       {"check": "build", "tree": tolist(t), "pretty": pretty(t)})
            continue
        if lv.add(s):
            s0.append(s)
    s1 = []
    for a in s0:
        for tr in unary_transitions(a):
            s = do_transition(st, tr, 1)
            if s is not None and lv.add(s):
                s1.append(s)
        for b in s0:
            for tr in binary_transitions(a, b):
                s = do_transition(st, tr, 1)
                if s is not None and lv.add(s):
                    s1.append(s)
    lv.flush()
    # harness self-check: the vector reference and the scalar reference agree on every level <= 1 state
    for s in s0 + s1:
        assert s.vec == [ref_eval(s.raw, (p[0], p[1]), (p[2],)) for p in PTS], s.raw
    return s0, s1, lv


def l3_ops(mode: str):
    if mode == "none":
        return ()
    if mode == "full":
        return UNARY_ALL
    # "lite": one representative constant per operator form
    keep = {("neg", None, None), ("add", -1, "R"), ("add", 2, "L"), ("sub", 3, "R"), ("mul", -2, "R"), ("mul", 3, "L"),
            ("mul", 0, "R"), ("fdiv", 2, "R"), ("fdiv", 3, "R"), ("cdiv", 2, "R"), ("cdiv", 4, "R"), ("mod", 2, "R"),
            ("mod", 4, "R"), ("mod", 3, "R"), ("fdiv", 4, "R"), ("cdiv", 3, "R")}
    return tuple(o for o in UNARY_ALL if o in keep)


def _shard_l2(task):
    """All level-2 transitions whose LEFT/primary operand is state #ai (+ restricted level 3 on each new state)."""
    ai, l3mode, l3filter, seed = task
    st = Stats()
    S0, S1, known, sizes = _G["s0"], _G["s1"], _G["known"], _G["sizes"]
    S01 = S0 + S1
    a = S01[ai]
    lv2 = Level(st, known, sizes, seed)
    lv3 = Level(st, known, sizes, seed)
    ops3 = l3_ops(l3mode)

    def expand3(s2: State):
        if not ops3:
            return
        if l3filter == "small" and not _small(s2.raw):
            return
        for tr in unary_transitions(s2, ops3):
            s3 = do_transition(st, tr, 3)
            if s3 is not None and s3.expr not in lv2.seen:
                lv3.add(s3)

    def reach(tr):
        s = do_transition(st, tr, 2)
        if s is not None and lv2.add(s):
            expand3(s)

    if a.depth == 1:
        for tr in unary_transitions(a):
            reach(tr)
        others = S01
    else:
        others = S1
    for b in others:
        for tr in binary_transitions(a, b):
            reach(tr)
    lv2.flush()
    lv3.flush()
    return st, lv2.hashes, lv2.nt_hashes, lv3.hashes, lv3.nt_hashes


def _small(raw) -> bool:
    """Restriction used for quick level 3: every constant / int in the tree is in {-1, 2, 3} (divisors {2, 3})."""
    k = raw[0]
    if k in ("d", "s"):
        return True
    if k in ("c", "i"):
        return raw[1] in (-1, 2, 3)
    return all(_small(c) for c in raw[1:])


# ----------------------------------------------------------------------------- composition checks
def k_set():
    """Small fixed set of replacement expressions (raw trees of the same language, every operator present)."""
    d0, d1, s0 = ("d", 0), ("d", 1), ("s", 0)
    return [
        d0, d1, s0, ("c", 0), ("c", -1), ("c", 2),
        ("add", d0, d1), ("sub", d1, d0), ("add", s0, ("i", 1)), ("mul", d0, ("i", 2)), ("neg", s0),
        ("fdiv", d1, ("i", 2)), ("cdiv", d0, ("i", 3)), ("mod", s0, ("i", 2)),
        ("mul", ("add", d0, s0), ("c", 3)), ("add", ("mod", d1, ("i", 3)), ("c", -2)),
    ]


BOX4 = None


def _points(nd: int, ns: int, mask: int):
    axes = [RNG if mask & (1 << i) else (0,) for i in range(nd + ns)]
    for p in itertools.product(*axes):
        yield p[:nd], p[nd:]


def _compose_compare(st: Stats, api: str, subj_raws, new_dims, new_syms, res_exprs, nd: int, ns: int, sym_of, wit) -> None:
    """Compare library results `res_exprs` (over nd dims, ns symbols) with the reference composition:
    subject_j( new_dims_i(point), new_syms(point) ).  new_dims / new_syms are lists of (raw, dims->, sym env fn).
    `sym_of(kind, syms)` gives the symbol tuple seen by the replacement expressions ('inner') or, for symbols
    of the subject that are not replaced, by the subject itself ('outer')."""
    mask = 0
    for r in res_exprs:
        mask |= lib_vars(r, nd)
    # variables the reference can depend on
    full = (1 << (nd + ns)) - 1
    if mask > full:
        st.violate(f"C26|compose|{api}|result-uses-unknown-variable", f"{api} result mentions a variable outside its space", wit)
        return
    mask |= wit["_refmask"]
    for dims, syms in _points(nd, ns, mask):
        inner_s = sym_of("inner", syms)
        nd_vals = [ref_eval(r, dims, inner_s) for r in new_dims]
        if new_syms is None:
            ns_vals = sym_of("outer", syms)
        else:
            ns_vals = [ref_eval(r, dims, inner_s) for r in new_syms]
        for j, (sr, le) in enumerate(zip(subj_raws, res_exprs)):
            exp = ref_eval(sr, nd_vals, ns_vals)
            got = le.eval(dims, syms)
            st.evaluations += 1
            if got != exp:
                w = {k: v for k, v in wit.items() if not k.startswith("_")}
                st.violate(f"C26|compose|{api}|value-differs",
                           f"{api}: composed expression {le} differs from the reference composition",
                           {**w, "result": str(le), "result_index": j, "dims": list(dims), "symbols": list(syms),
                            "expected": exp, "got": got})
                return
    st.outcomes[f"compose:{api}:ok"] += 1


def _needs(raw) -> tuple[bool, bool, bool]:
    m = raw_vars(raw)
    return bool(m & 1), bool(m & 2), bool(m & 4)


def check_expr_compose(st: Stats, subj_raw, K, Kexpr, Kvars) -> None:
    """AffineExpr.compose(map) and AffineExpr.replace_dims_and_symbols for one subject and every replacement
    tuple from K that differs on a variable occurring in the subject."""
    from xdsl.ir.affine import AffineMap

    e = build(subj_raw)
    u0, u1, us = _needs(subj_raw)
    nK = len(K)
    r0s = range(nK) if u0 else (0,)
    r1s = range(nK) if u1 else (1,)
    # --- expr.compose(map): documented for maps with at least as many results as dims used; symbols are kept
    for nres in (1, 2):
        if nres == 1 and u1:
            continue
        for i0 in r0s:
            for i1 in (r1s if nres == 2 else (None,)):
                idx = [i0] if nres == 1 else [i0, i1]
                m = AffineMap(2, 1, tuple(Kexpr[i] for i in idx))
                wit = {"check": "compose", "api": "AffineExpr.compose", "subject": tolist(subj_raw), "pretty": pretty(subj_raw),
                       "map_results": [tolist(K[i]) for i in idx], "map": str(m)}
                st.executions += 1
                st.transitions += 1
                try:
                    r = e.compose(m)
                except NotImplementedError:
                    st.bump("skipped_compose_not_implemented")
                    continue
                except Exception as ex:  # noqa: BLE001
                    st.violate(f"C26|compose|AffineExpr.compose|raises-{type(ex).__name__}", f"compose raised {type(ex).__name__}",
                               {**wit, "error": str(ex)[:200]})
                    continue
                refmask = (4 if us else 0)
                for i in idx:
                    refmask |= Kvars[i]
                wit["_refmask"] = refmask
                _compose_compare(st, "AffineExpr.compose", [subj_raw], [K[i] for i in idx] + ([("d", 1)] if nres == 1 else []),
                                 None, [r], 2, 1, lambda kind, syms: syms, wit)
    # --- expr.replace_dims_and_symbols(new_dims, new_symbols) with full-length lists
    rss = range(nK) if us else (2,)
    for i0 in r0s:
        for i1 in r1s:
            for i2 in rss:
                wit = {"check": "compose", "api": "AffineExpr.replace_dims_and_symbols", "subject": tolist(subj_raw),
                       "pretty": pretty(subj_raw), "new_dims": [tolist(K[i0]), tolist(K[i1])], "new_symbols": [tolist(K[i2])]}
                st.executions += 1
                st.transitions += 1
                try:
                    r = e.replace_dims_and_symbols([Kexpr[i0], Kexpr[i1]], [Kexpr[i2]])
                except NotImplementedError:
                    st.bump("skipped_compose_not_implemented")
                    continue
                except Exception as ex:  # noqa: BLE001
                    st.violate(f"C26|compose|AffineExpr.replace_dims_and_symbols|raises-{type(ex).__name__}",
                               f"replace_dims_and_symbols raised {type(ex).__name__}", {**wit, "error": str(ex)[:200]})
                    continue
                wit["_refmask"] = Kvars[i0] | Kvars[i1] | Kvars[i2]
                _compose_compare(st, "AffineExpr.replace_dims_and_symbols", [subj_raw], [K[i0], K[i1]], [K[i2]], [r], 2, 1,
                                 lambda kind, syms: syms, wit)


def check_map_compose(st: Stats, subj_raws, other_raws) -> None:
    """AffineMap.compose: self = (d0..)[s0] -> subj_raws, other = (d0, d1)[s0] -> other_raws.
    Result: (d0, d1)[s0 (self's), s1 (other's s0)]."""
    from xdsl.ir.affine import AffineMap

    nres = len(other_raws)
    self_map = AffineMap(nres, 1, tuple(build(r) for r in subj_raws))
    other = AffineMap(2, 1, tuple(build(r) for r in other_raws))
    wit = {"check": "compose", "api": "AffineMap.compose", "self_results": [tolist(r) for r in subj_raws],
           "other_results": [tolist(r) for r in other_raws], "self": str(self_map), "other": str(other)}
    st.executions += 1
    st.transitions += 1
    try:
        c = self_map.compose(other)
    except NotImplementedError:
        st.bump("skipped_compose_not_implemented")
        return
    except Exception as ex:  # noqa: BLE001
        st.violate(f"C26|compose|AffineMap.compose|raises-{type(ex).__name__}", f"AffineMap.compose raised {type(ex).__name__}",
                   {**wit, "error": str(ex)[:200]})
        return
    if (c.num_dims, c.num_symbols, len(c.results)) != (2, 2, len(subj_raws)):
        st.violate("C26|compose|AffineMap.compose|arity-differs",
                   "composed map does not have other's dims and the concatenated symbols", {**wit, "composed": str(c)})
        return
    refmask = 0
    for r in subj_raws:
        if raw_vars(r) & 4:
            refmask |= 4                       # self's s0 -> result symbol 0 -> bit 2
    for r in other_raws:
        m = raw_vars(r)
        refmask |= (m & 3) | (8 if m & 4 else 0)   # other's s0 -> result symbol 1 -> bit 3
    wit["_refmask"] = refmask
    _compose_compare(st, "AffineMap.compose", list(subj_raws), list(other_raws), None, list(c.results), 2, 2,
                     lambda kind, syms: (syms[1],) if kind == "inner" else (syms[0],), wit)
    # the map's own eval must agree with its results' eval (AffineMap.eval is one of the observation points)
    got = c.eval((1, -3), (2, -4))
    exp = tuple(ref_eval(sr, [ref_eval(r, (1, -3), (-4,)) for r in other_raws], (2,)) for sr in subj_raws)
    st.evaluations += 1
    if tuple(got) != exp:
        st.violate("C26|compose|AffineMap.eval|value-differs", "AffineMap.eval of the composed map differs from the reference",
                   {**{k: v for k, v in wit.items() if not k.startswith("_")}, "composed": str(c), "expected": list(exp), "got": list(got)})


def check_map_replace(st: Stats, subj_raws, nd_raws, ns_raw) -> None:
    """AffineMap.replace_dims_and_symbols(new_dims, new_symbols, 2, 1)."""
    from xdsl.ir.affine import AffineMap

    m = AffineMap(2, 1, tuple(build(r) for r in subj_raws))
    wit = {"check": "compose", "api": "AffineMap.replace_dims_and_symbols", "self_results": [tolist(r) for r in subj_raws],
           "new_dims": [tolist(r) for r in nd_raws], "new_symbols": [tolist(ns_raw)]}
    st.executions += 1
    st.transitions += 1
    try:
        c = m.replace_dims_and_symbols([build(r) for r in nd_raws], [build(ns_raw)], 2, 1)
    except NotImplementedError:
        st.bump("skipped_compose_not_implemented")
        return
    except Exception as ex:  # noqa: BLE001
        st.violate(f"C26|compose|AffineMap.replace_dims_and_symbols|raises-{type(ex).__name__}",
                   f"AffineMap.replace_dims_and_symbols raised {type(ex).__name__}", {**wit, "error": str(ex)[:200]})
        return
    if (c.num_dims, c.num_symbols, len(c.results)) != (2, 1, len(subj_raws)):
        st.violate("C26|compose|AffineMap.replace_dims_and_symbols|arity-differs", "wrong result arity", {**wit, "result": str(c)})
        return
    wit["_refmask"] = raw_vars(nd_raws[0]) | raw_vars(nd_raws[1]) | raw_vars(ns_raw)
    _compose_compare(st, "AffineMap.replace_dims_and_symbols", list(subj_raws), list(nd_raws), [ns_raw], list(c.results), 2, 1,
                     lambda kind, syms: syms, wit)


def check_inverse_permutation(st: Stats, res_raws) -> None:
    """m = (d0, d1) -> res ; if m.inverse_permutation() is a map, it composed with m is the identity."""
    from xdsl.ir.affine import AffineMap

    m = AffineMap(2, 0, tuple(build(r) for r in res_raws))
    wit = {"check": "inverse_permutation", "results": [tolist(r) for r in res_raws], "map": str(m)}
    st.executions += 1
    st.transitions += 1
    try:
        inv = m.inverse_permutation()
    except Exception as ex:  # noqa: BLE001
        st.violate(f"C26|inverse_permutation|raises-{type(ex).__name__}", f"inverse_permutation raised {type(ex).__name__}",
                   {**wit, "error": str(ex)[:200]})
        return
    if inv is None:
        st.outcomes["inverse_permutation:None"] += 1
        return
    st.outcomes["inverse_permutation:map"] += 1
    try:
        comp = inv.compose(m)
    except Exception as ex:  # noqa: BLE001
        st.violate(f"C26|inverse_permutation|compose-raises-{type(ex).__name__}", "inverse.compose(map) raised",
                   {**wit, "inverse": str(inv), "error": str(ex)[:200]})
        return
    for a in RNG:
        for b in RNG:
            st.evaluations += 1
            mid = tuple(ref_eval(r, (a, b), ()) for r in res_raws)
            got1 = tuple(inv.eval(mid, ()))
            got2 = tuple(comp.eval((a, b), ()))
            if got1 != (a, b) or got2 != (a, b):
                st.violate("C26|inverse_permutation|not-left-inverse",
                           "inverse_permutation(m) applied after m is not the identity",
                           {**wit, "inverse": str(inv), "composed": str(comp), "point": [a, b], "got_eval": list(got1), "got_composed": list(got2)})
                return


def _shard_compose(task):
    kind, payload = task
    st = Stats()
    K = k_set()
    if kind == "expr":
        Kexpr = [build(r) for r in K]
        Kvars = [raw_vars(r) for r in K]
        for raw in payload:
            check_expr_compose(st, raw, K, Kexpr, Kvars)
    elif kind == "map":
        subj_list, others = payload
        for subj in subj_list:
            for o in others:
                if len(o) == 1 and any(raw_vars(r) & 2 for r in subj):
                    continue                      # self would use d1 but other has a single result
                check_map_compose(st, subj, o)
    elif kind == "mapreplace":
        for subj, nd, ns in payload:
            check_map_replace(st, subj, nd, ns)
    elif kind == "invperm":
        for res in payload:
            check_inverse_permutation(st, res)
    return st


# ----------------------------------------------------------------------------- driver
def _count_distinct(arrs) -> int:
    buckets = [array("q") for _ in range(64)]
    for a in arrs:
        for h in a:
            buckets[h & 63].append(h)
    return sum(len(set(b)) for b in buckets)


def run(ctx):
    quick = ctx.quick
    sizes = SIMPLIFY_SIZES
    st = Stats()
    s0, s1, lv01 = make_levels01(st, sizes, ctx.seed)
    ctx.merge(st)
    known = {s.expr for s in s0 + s1}
    _G.update(s0=s0, s1=s1, known=known, sizes=sizes)
    n01 = len(s0) + len(s1)

    l3mode, l3filter = ("lite", "small") if quick else ("full", "all")
    tasks = [(ai, l3mode, l3filter, ctx.seed) for ai in range(n01)]
    h_all = [lv01.hashes]
    h_nt = [lv01.nt_hashes]
    n2 = n3 = 0
    for _, (wst, h2, nt2, h3, nt3) in pmap(_shard_l2, tasks):
        ctx.merge(wst)
        h_all += [h2, h3]
        h_nt += [nt2, nt3]
        n2 += len(h2)
        n3 += len(h3)

    # ---- composition
    K = k_set()
    subj = [s.raw for s in s0 + s1]
    if not quick:
        # level-2 subjects built from K itself (they use both dims and the symbol frequently)
        extra = []
        for a in K:
            for b in K:
                extra.append(("add", a, b))
                extra.append(("sub", a, b))
            for k in ("fdiv", "cdiv", "mod"):
                for v in (2, 3):
                    extra.append((k, a, ("i", v)))
            extra.append(("mul", a, ("i", -2)))
            extra.append(("neg", a))
        subj += extra
    ctasks = [("expr", subj[i:i + 8]) for i in range(0, len(subj), 8)]
    maps1 = [(a,) for a in K]
    maps2 = [(a, b) for a in K for b in K]
    msub = [(r,) for r in K] + [(a, b) for a in K[6:10] for b in K[10:14]]
    if not quick:
        msub += [(("add", a, b),) for a in K[3:] for b in K[:3]]
    others = maps1 + maps2
    for i in range(0, len(msub), 2):
        ctasks.append(("map", (msub[i:i + 2], others)))
    rep = [((a, b), (x, y), z) for a, b in [(K[6], K[8]), (K[14], K[11]), (K[13], K[7])] for x in K for y in K for z in K[:8:2] + K[8:9]]
    for i in range(0, len(rep), 256):
        ctasks.append(("mapreplace", rep[i:i + 256]))
    PK = [("d", 0), ("d", 1), ("c", 0), ("add", ("d", 0), ("d", 1))]
    inv = [tuple(c) for n in range(0, 5) for c in itertools.product(PK, repeat=n)]
    ctasks.append(("invperm", inv))
    for _, wst in pmap(_shard_compose, ctasks):
        ctx.merge(wst)

    ctx.stats.states = _count_distinct(h_all)
    ctx.stats.nontrivial = _count_distinct(h_nt)
    ctx.stats.bump("level0_states", len(s0))
    ctx.stats.bump("level1_states", len(s1))
    ctx.stats.bump("level2_states_per_shard_sum", n2)
    ctx.stats.bump("level3_states_per_shard_sum", n3)
    ctx.bounds = {
        "leaves": [pretty(t) for t in LEAVES], "int_operands": list(INTS), "divisors": list(DIVS),
        "box": f"[{LO},{HI}]^3 = {NPTS} points",
        "depth_full": 2,
        "depth3": ("unary/int-operand operators " + ("(one or two constants per operator form) on depth-2 trees whose constants are in {-1,2,3}"
                   if quick else "(all int operands -2..3, divisors 1..4) on every depth-2 tree")),
        "simplify_sizes": [list(x) for x in sizes],
        "compose_subjects": len(subj), "replacement_set": [pretty(t) for t in K],
        "map_compose_pairs": len(msub) * len(others), "inverse_permutation_maps": len(inv),
    }
    ctx.rule = ("generator tree: level 0 = leaves, level k+1 = every in-domain operator overload applied to a level-k state and a "
                "state of level <= k (full for k+1 <= 2; level 3 = neg / python-int operand forms on level-2 states); "
                "states = distinct built library expressions (structural equality), transitions = overload applications + "
                "compose/replace calls; every transition is compared with the reference on all 729 points, every new state "
                "is simplified (2 sizes) and printed/re-parsed; non-trivial = distinct built expression whose reference value "
                "is not constant over the box")
    ctx.assumptions = [
        "reference evaluator ref_eval/ref_vec_op in props/c26.py (Python // and % for positive divisors, ceildiv = -((-a)//b))",
        "AffineExpr.eval is the observation function; it is called on the box projected on the variables occurring in the "
        "expression and the value is reused for points differing only in non-occurring variables",
        "python-int divisors/multipliers and constant-expression operands are both exercised; int - expr is out of scope",
        "a transition whose built value is wrong is reported and not expanded further (innermost failure only)",
    ]


# ----------------------------------------------------------------------------- replay
def replay(rep) -> bool:
    w = rep["witness"]
    st = Stats()
    chk = w.get("check")
    if chk in ("build", "simplify", "print-parse"):
        raw = totuple(w["tree"])
        # rebuild bottom-up through do_transition so that the same comparisons are made
        def go(t, top):
            k = t[0]
            if k in ("d", "s", "c"):
                return State(t, build_leaf(t), ref_vec_leaf(t), 0)
            kids = []
            for c in t[1:]:
                if c[0] == "i":
                    kids.append(None)
                else:
                    s = go(c, False)
                    if s is None:
                        return None
                    kids.append(s)
            if k == "neg":
                a = kids[0]
                tr = (t, ("neg", a.expr, None), ("neg", a.vec, None), a.expr)
            else:
                xs = [(c[1], [c[1]] * NPTS) if s is None else (s.expr, s.vec) for c, s in zip(t[1:], kids)]
                prim = kids[0].expr if kids[0] is not None else kids[1].expr
                if k == "mul" and kids[0] is not None and kids[1] is not None and kids[1].const is None:
                    prim = kids[1].expr
                tr = (t, (k, xs[0][0], xs[1][0]), (k, xs[0][1], xs[1][1]), prim)
            return do_transition(st, tr, raw_depth(t))
        s = go(raw, True)
        if s is not None and chk == "simplify":
            check_simplify(st, s.raw, s.expr, s.vec)
        if s is not None and chk == "print-parse":
            check_print_parse(st, [(s.raw, s.expr, s.vec)])
    elif chk == "compose":
        api = w["api"]
        K = k_set()
        if api.startswith("AffineExpr."):
            check_expr_compose(st, totuple(w["subject"]), K, [build(r) for r in K], [raw_vars(r) for r in K])
        elif api in ("AffineMap.compose", "AffineMap.eval"):
            check_map_compose(st, [totuple(r) for r in w["self_results"]], [totuple(r) for r in w["other_results"]])
        else:
            check_map_replace(st, [totuple(r) for r in w["self_results"]], [totuple(r) for r in w["new_dims"]], totuple(w["new_symbols"][0]))
    elif chk == "inverse_permutation":
        check_inverse_permutation(st, [totuple(r) for r in w["results"]])
    return rep["signature"] not in st.violations
