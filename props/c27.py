"""C27 — PDL patterns act the same interpreted (apply-pdl) or compiled to pdl_interp
(convert-pdl-to-pdl-interp + apply-pdl-interp).

Differential, bounded-exhaustive (no sampling):

PATTERNS  (1) every `pdl.pattern` op of the .mlir corpus (chunks that parse), taken as a single-pattern module,
              that uses only features both paths implement (native constraints / native rewrites need registered
              Python callbacks, pdl.operands/types/results/range are not implemented by the PDL interpreter, a
              rewrite that neither replaces nor erases its root loops under any greedy driver: skipped and counted);
          (2) a generator tree (`gen_patterns`): root name in {arith.addi, arith.muli, arith.subi, test.op},
              operands in {any value, the SAME pdl value as an earlier operand, result of a nested pdl.operation
              (depth <= 2, optionally `arith.constant` with a `value` attribute constraint 0/1/2)}, result-type
              constraint in {any, i32, one type variable shared by all values}, rewrite in {replace by an operand,
              replace by an operand of the nested op, replace by a NEW op built from captured operands (other op
              name, kept / swapped order, typed / type inferred from the replaced op, via op / via result value),
              replace by a new arith.constant, erase}.  Three slices: all matching shapes x simplest rewrite,
              core shapes x type constraints, core shapes x all rewrites.  Every generated pattern terminates (a
              rewrite removes one op carrying the root's name and never creates one).
          (3) the multi-result family (`multi_result_patterns` x `multi_result_payloads`): the root consumes
              `pdl.result k of %d`, k in {0, 1}, of a two-result definition (result 0, result 1, both in either order,
              or next to an unconstrained operand); payloads: one two-result test.op + 1-2 consumers, all wirings.
          (4) the shared-attribute family (`shared_attr_patterns` x `shared_attr_payloads`): ONE pdl.attribute value
              (constant 0 / 1, unconstrained, typed-only) used in two attribute slots (two names of the root op; root
              op + operand-defining op); payloads: all combinations of slot values {0:i32, 1:i32, 1:i64, missing}.
PAYLOADS  func.func over two i32 block arguments with <= N ops over {arith.constant 0/1/2, addi, muli, subi,
          test.op (0-2 operands, 0/1 result)}, ALL operand wirings over block arguments and earlier results,
          every value used (otherwise-unused results are returned), modulo swapping the two block arguments
          (`payload_set`).  The <= 2-op family runs against every pattern, the larger families against the patterns
          whose root op name occurs in the payload.  A corpus pattern additionally gets the payload of its own chunk
          and a payload synthesised from its match DAG, in the layout(s) the tests use (pattern embedded in the
          payload module / separate pdl_file, pdl_interp_file).
For every (pattern, payload):  A = real `apply-pdl` pass on module{pattern, payload};  B = real
`convert-pdl-to-pdl-interp` on module{pattern} (once per pattern) then real `apply-pdl-interp` on
module{payload, matcher, rewriters}; fresh Contexts; pass classes from xdsl.transforms.get_all_passes().
Payloads are batched as several functions of one module (patterns cannot see across functions); a batch in which
either path raises is re-run one payload at a time.

ORACLE    canon(payload part after A) == canon(payload part after B) — only the final IR is compared.  The two passes
          document different greedy-driver settings (apply-pdl wraps the pattern in GreedyRewritePatternApplier
          whose default erases trivially dead ops, apply-pdl-interp does not), so a difference is only a violation
          if it is still there (i) after removing trivially dead pure arith ops from both results and (ii) when the
          PDLRewritePattern is driven exactly like apply-pdl-interp drives its pattern (same walker, dce off).
          One path raising (or not terminating) where the other succeeds is a violation; both raising is a counted
          outcome.  Results that fail verification on both paths alike are the pattern's fault (counted).
SIGNATURE C27|<pattern class>|<failure kind>; the pattern class is computed from the pattern IR (root class, matching
          features, rewrite features); every violation is filed under the most general violating class
          (`_minimise_signatures`) so that one defect yields one signature.
"""
from __future__ import annotations

import io
import itertools
import os
import shutil
import signal
import tempfile
from typing import Any

from mc import corpus
from mc.canon import canon, first_op_diff
from mc.pool import pmap
from mc.stats import Stats

ARITH = ("arith.addi", "arith.muli", "arith.subi")
NAMES = ARITH + ("test.op",)
ANY = ("any",)
TIMEOUT_S = 6.0  # per apply() call; only corpus patterns can fail to terminate


# =====================================================================================================================
# pattern generator
# =====================================================================================================================
def opn(name: str, operands: tuple = (), attr: int | None = None, nres: int = 1) -> tuple:
    return ("op", (name, tuple(operands), attr, nres))


def const(v: int) -> tuple:
    return opn("arith.constant", (), v)


def render_pattern(spec: dict) -> str:
    """spec = {"root": (name, operands, attr, nres), "types": any|i32|shared, "rewrite": (...)};
    operand = ("any",) | ("same", j) | ("op", opspec)."""
    lines: list[str] = []
    cnt = [0]
    types = spec["types"]

    def fresh(p: str) -> str:
        cnt[0] += 1
        return f"%{p}{cnt[0]}"

    shared_t = None
    if types == "shared":
        shared_t = "%t"
        lines.append("%t = pdl.type")

    def vlist(vals: list[str]) -> str:
        return " (" + ", ".join(vals) + " : " + ", ".join("!pdl.value" for _ in vals) + ")" if vals else ""

    def emit_op(op: tuple, is_root: bool) -> dict:
        name, operands, attr, nres = op
        vals: list[str] = []
        nested: list[dict | None] = []
        for o in operands:
            if o[0] == "any":
                v = fresh("v")
                lines.append(f"{v} = pdl.operand" + (f" : {shared_t}" if shared_t else ""))
                vals.append(v)
                nested.append(None)
            elif o[0] == "same":
                vals.append(vals[o[1]])
                nested.append(None)
            else:
                info = emit_op(o[1], False)
                r = fresh("r")
                lines.append(f"{r} = pdl.result 0 of {info['op']}")
                vals.append(r)
                nested.append(info)
        a = None
        if attr is not None:
            a = fresh("a")
            lines.append(f"{a} = pdl.attribute = {attr} : i32")
        tv = None
        if nres:
            if shared_t:
                tv = shared_t
            else:
                tv = fresh("t")
                lines.append(f"{tv} = pdl.type" + (" : i32" if (types == "i32" and is_root) else ""))
        o = fresh("op")
        s = f'{o} = pdl.operation "{name}"' + vlist(vals)
        if a:
            s += ' {"value" = ' + a + "}"
        if tv:
            s += f" -> ({tv} : !pdl.type)"
        lines.append(s)
        return {"op": o, "vals": vals, "nested": nested, "type": tv}

    root = emit_op(tuple(spec["root"]), True)
    rw = spec["rewrite"]
    body: list[str] = []
    R = root["op"]
    if rw[0] == "operand":
        body.append(f"pdl.replace {R} with ({root['vals'][rw[1]]} : !pdl.value)")
    elif rw[0] == "nested-operand":
        body.append(f"pdl.replace {R} with ({root['nested'][rw[1]]['vals'][rw[2]]} : !pdl.value)")
    elif rw[0] in ("new", "new-nested"):
        _, name, perm, typed, via = rw
        vals = list(root["vals"]) if rw[0] == "new" else list(next(n for n in root["nested"] if n)["vals"])
        if perm == "swap":
            vals = vals[::-1]
        s = f'%new = pdl.operation "{name}"' + vlist(vals)
        if typed and root["type"]:
            s += f" -> ({root['type']} : !pdl.type)"
        body.append(s)
        if via == "op":
            body.append(f"pdl.replace {R} with %new")
        else:
            body.append("%newr = pdl.result 0 of %new")
            body.append(f"pdl.replace {R} with (%newr : !pdl.value)")
    elif rw[0] == "const-outer":
        # the constant attribute lives in the match section, bound to no matched op, and is used by the rewrite
        lines.append(f"%outa = pdl.attribute = {rw[1]} : i32")
        body.append(f'%new = pdl.operation "arith.constant" {{"value" = %outa}} -> ({root["type"]} : !pdl.type)')
        body.append(f"pdl.replace {R} with %new")
    elif rw[0] == "const":
        body.append(f"%newa = pdl.attribute = {rw[1]} : i32")
        body.append(f'%new = pdl.operation "arith.constant" {{"value" = %newa}} -> ({root["type"]} : !pdl.type)')
        body.append(f"pdl.replace {R} with %new")
    elif rw[0] == "erase":
        body.append(f"pdl.erase {R}")
    else:
        raise ValueError(rw)
    text = "pdl.pattern : benefit(1) {\n" + "".join("  " + ln + "\n" for ln in lines)
    text += f"  pdl.rewrite {R} {{\n" + "".join("    " + ln + "\n" for ln in body) + "  }\n}\n"
    return text


def _other(name: str) -> str:
    """the next arith name (cyclic); for test.op: arith.addi"""
    return ARITH[(ARITH.index(name) + 1) % 3] if name in ARITH else "arith.addi"


def _l2() -> list[tuple]:
    return [const(0), const(1), opn("arith.addi", (ANY, ANY)), opn("test.op", (ANY,))]


def _l1(root: str, full: bool) -> list[tuple]:
    """operand shapes that are results of a nested op (depth 1, possibly with one more nested level)"""
    out = [const(0), const(1)]
    if full:
        out.append(const(2))
    r = root if root in ARITH else "arith.addi"
    for n in (r, _other(r)):
        out.append(opn(n, (ANY, ANY)))
        out.append(opn(n, (ANY, ("same", 0))))
        for d in (_l2() if full else [const(0), opn("arith.addi", (ANY, ANY))]):
            out.append(opn(n, (d, ANY)))
            out.append(opn(n, (ANY, d)))
    out.append(opn("test.op", (ANY,)))
    if full:
        out.append(opn("test.op", ()))
        out.append(opn("test.op", (const(0),)))
    return out


_SIMPLE = [const(0), const(1), opn("arith.addi", (ANY, ANY)), opn("arith.muli", (ANY, ANY))]


def _shapes2(root: str, full: bool) -> list[tuple]:
    """ordered operand pairs for a two-operand root"""
    out: list[tuple] = [(ANY, ANY), (ANY, ("same", 0))]
    for s in _l1(root, full):
        out += [(s, ANY), (ANY, s), (s, ("same", 0))]
    for s in _SIMPLE:
        for t in _SIMPLE:
            out.append((s, t))
    return out


_CORE2 = [
    (ANY, ANY), (ANY, ("same", 0)), (const(0), ANY), (ANY, const(0)), (ANY, const(1)),
    (opn("arith.addi", (ANY, ANY)), ANY), (ANY, opn("arith.muli", (ANY, ANY))),
    (opn("arith.addi", (ANY, ("same", 0))), ANY), (opn("arith.addi", (ANY, const(0))), ANY),
    (opn("arith.addi", (ANY, ANY)), ("same", 0)), (opn("arith.addi", (ANY, ANY)), opn("arith.addi", (ANY, ANY))),
    (opn("test.op", (ANY,)), ANY),
]


def _rewrites(root: tuple, full: bool) -> list[tuple]:
    name, operands, _attr, nres = root
    out: list[tuple] = []
    if nres == 0:
        return [("erase",)]
    for i in range(len(operands)):
        if not (operands[i][0] == "same"):
            out.append(("operand", i))
    for i, o in enumerate(operands):
        if o[0] == "op":
            for j in range(len(o[1][1])):
                out.append(("nested-operand", i, j))
    news = [n for n in ((_other(name), "test.op") if name in ARITH else ("arith.addi", "arith.muli")) if n != name]
    for n in news:
        if n in ARITH and len(operands) != 2:
            continue
        for perm in ("same", "swap") if len(operands) == 2 else ("same",):
            for typed, via in ((True, "op"), (True, "val"), (False, "op")):
                if not full and (typed, via) == (True, "val") and perm == "swap":
                    continue
                out.append(("new", n, perm, typed, via))
    first_nested = next((o for o in operands if o[0] == "op"), None)
    if first_nested is not None and len(first_nested[1][1]) == 2:
        nn = _other(name)
        out.append(("new-nested", nn, "same", True, "op"))
        if full:
            out.append(("new-nested", "test.op", "swap", True, "op"))
    out.append(("const", 0))
    out.append(("const", 1))
    if len(operands) == 2 and operands[0] == ANY and operands[1] in (ANY, ("same", 0)):
        out.append(("const-outer", 0))
        out.append(("const-outer", 1))
    return out


def gen_patterns(full: bool) -> list[dict]:
    pats: list[dict] = []
    seen: set[str] = set()

    def add(root: tuple, types: str, rw: tuple) -> None:
        spec = {"root": root, "types": types, "rewrite": rw}
        k = repr(spec)
        if k not in seen:
            seen.add(k)
            pats.append(spec)

    # slice M: all matching shapes, simplest rewrite
    for r in ARITH if full else ("arith.addi",):
        for pair in _shapes2(r, full):
            add((r, pair, None, 1), "any", ("operand", 0))
    if not full:
        for pair in _CORE2:
            add(("arith.muli", pair, None, 1), "any", ("operand", 0))
    t1 = [(), (ANY,)] + [(s,) for s in _l1("test.op", full)]
    t2 = [(ANY, ANY), (ANY, ("same", 0))] + [p for s in _l1("test.op", False) for p in ((s, ANY), (ANY, s))]
    for ops in t1 + t2:
        add(("test.op", ops, None, 1), "any", ("operand", 0) if ops and ops[0] == ANY else ("const", 1))
        if full or len(ops) < 2:
            add(("test.op", ops, None, 0), "any", ("erase",))
    # slice T: type constraints on core shapes
    for r in ("arith.addi", "test.op") if full else ("arith.addi",):
        for pair in _CORE2:
            for ty in ("i32", "shared"):
                add((r, pair, None, 1), ty, ("operand", 0) if pair[0][0] != "same" else ("operand", 1))
    # slice R: every rewrite on core shapes
    for r in ("arith.addi", "arith.subi", "test.op") if full else ("arith.addi", "test.op"):
        for pair in _CORE2:
            root = (r, pair, None, 1)
            for rw in _rewrites(root, full):
                if rw[0] == "new" and not rw[3] and pair != (ANY, ANY):
                    continue   # type inference from the replaced op: neither path manages it (both raise), keep one shape
                for ty in ("any", "shared") if (full and r == "arith.addi") else ("any",):
                    add(root, ty, rw)
    for ops in ((), (ANY,), (opn("arith.addi", (ANY, ANY)),)):
        for nres in (0, 1):
            root = ("test.op", ops, None, nres)
            for rw in _rewrites(root, full):
                add(root, "any", rw)
    return pats


# =====================================================================================================================
# payload generator
# =====================================================================================================================
def gen_payloads(max_ops: int, bins: tuple, consts: tuple, tkinds: tuple, nargs: int = 2) -> list[tuple]:
    """all op sequences (all wirings); op = ("c", v) | ("b", name, i, j) | ("t", wiring, restype|None)"""
    out: list[tuple] = []

    def rec(ops: list, nvals: int) -> None:
        if ops:
            out.append(tuple(ops))
        if len(ops) == max_ops:
            return
        for v in consts:
            rec(ops + [("c", v)], nvals + 1)
        for n in bins:
            for i in range(nvals):
                for j in range(nvals):
                    rec(ops + [("b", n, i, j)], nvals + 1)
        for k, rt in tkinds:
            for w in itertools.product(range(nvals), repeat=k):
                rec(ops + [("t", w, rt)], nvals + (1 if rt else 0))

    rec([], nargs)
    return out


def _connected(p: tuple, nargs: int = 2) -> bool:
    """every result except the last op's is used by a later op"""
    n, used, res = nargs, set(), []
    for idx, op in enumerate(p):
        if op[0] == "b":
            used |= {op[2], op[3]}
        elif op[0] == "t":
            used |= set(op[1])
        if op[0] != "t" or op[2]:
            res.append((n, idx))
            n += 1
    return all(v in used or idx == len(p) - 1 for v, idx in res)


def _swap(p: tuple) -> tuple:
    def m(i: int) -> int:
        return (1 - i) if i < 2 else i
    out = []
    for op in p:
        if op[0] == "b":
            out.append(("b", op[1], m(op[2]), m(op[3])))
        elif op[0] == "t":
            out.append(("t", tuple(m(i) for i in op[1]), op[2]))
        else:
            out.append(op)
    return tuple(out)


def render_payload(p: tuple, fname: str = "f", nargs: int = 2) -> str:
    names = [f"%x{i}" for i in range(nargs)]
    tys = ["i32"] * nargs
    used: set[int] = set()
    lines = []
    for k, op in enumerate(p):
        r = f"%{k}"
        if op[0] == "c":
            lines.append(f"{r} = arith.constant {op[1]} : i32")
            names.append(r)
            tys.append("i32")
        elif op[0] == "d":     # a definition with TWO results
            lines.append(f'{r}:2 = "test.op"() : () -> (i32, i32)')
            names += [f"{r}#0", f"{r}#1"]
            tys += ["i32", "i32"]
        elif op[0] == "b":
            lines.append(f"{r} = arith.{op[1]} {names[op[2]]}, {names[op[3]]} : i32")
            used |= {op[2], op[3]}
            names.append(r)
            tys.append("i32")
        else:
            _, w, rt = op
            used |= set(w)
            args = ", ".join(names[i] for i in w)
            at = ", ".join(tys[i] for i in w)
            if rt:
                lines.append(f'{r} = "test.op"({args}) : ({at}) -> {rt}')
                names.append(r)
                tys.append(rt)
            else:
                lines.append(f'"test.op"({args}) : ({at}) -> ()')
    rets = [i for i in range(nargs, len(names)) if i not in used]
    lines.append("func.return" + (" " + ", ".join(names[i] for i in rets) + " : " + ", ".join(tys[i] for i in rets) if rets else ""))
    sig = ", ".join(f"{names[i]}: i32" for i in range(nargs))
    rs = (" -> (" + ", ".join(tys[i] for i in rets) + ")") if rets else ""
    return f"func.func @{fname}({sig}){rs} {{\n" + "".join("  " + ln + "\n" for ln in lines) + "}\n"


def payload_set(quick: bool) -> tuple[list[tuple], int]:
    """-> (payload specs, n_always): the first n_always payloads (<= 2 ops, rich alphabet) are run against every
    pattern; the others only against patterns whose root op name occurs in the payload."""
    T1, T0, T2, TN = (1, "i32"), (1, None), (2, "i32"), (0, "i32")
    if quick:
        fams = [gen_payloads(2, ("addi", "muli"), (0, 1), (T1, T2, T0, TN)),
                gen_payloads(3, ("addi",), (0, 1), (T1,))]
    else:
        fams = [gen_payloads(2, ("addi", "muli", "subi"), (0, 1, 2), (T1, T2, T0, TN)),
                gen_payloads(3, ("addi", "muli"), (0, 1), (T1, T0)),
                gen_payloads(4, ("addi",), (0,), ())]
    seen: set[tuple] = set()
    out = []
    n_always = 0
    for k, fam in enumerate(fams):
        for p in fam:
            if not _connected(p):
                continue
            q = min(p, _swap(p))
            if q not in seen:
                seen.add(q)
                out.append(q)
        if k == 0:
            n_always = len(out)
    return out, n_always


def multi_result_payloads() -> list[tuple]:
    """one two-result definition `%d:2 = "test.op"()`, then 1 or 2 consumers (arith.addi x y / "test.op"(x) -> i32)
    with ALL wirings over {block args, %d#0, %d#1, earlier consumer}; modulo swapping the block arguments"""
    out, seen = [], set()

    def rec(ops: list, nvals: int, left: int) -> None:
        if len(ops) > 1:
            q = min(tuple(ops), _swap(tuple(ops)))
            if q not in seen:
                seen.add(q)
                out.append(q)
        if left == 0:
            return
        for i in range(nvals):
            rec(ops + [("t", (i,), "i32")], nvals + 1, left - 1)
            for j in range(nvals):
                rec(ops + [("b", "addi", i, j)], nvals + 1, left - 1)

    rec([("d",)], 4, 2)
    return out


def multi_result_patterns() -> list[str]:
    """`%d = pdl.operation "test.op" -> (%t0, %t1)`; the root consumes `pdl.result k of %d`, k in {0, 1}: result 0,
    result 1, or both in either order (and with an unconstrained second operand); the rewrite replaces the root by its
    operand 0 or by result 0 / 1 of the matched definition."""
    shapes = [("arith.addi", s) for s in ((0, 0), (0, 1), (1, 0), (1, 1), (0, "any"), (1, "any"), ("any", 0), ("any", 1))]
    shapes += [("test.op", (0,)), ("test.op", (1,))]
    out = []
    for root, sh in shapes:
        for target in ("operand0", 0, 1):
            ls = ["%t0 = pdl.type", "%t1 = pdl.type",
                  '%d = pdl.operation "test.op" -> (%t0, %t1 : !pdl.type, !pdl.type)']
            for k in sorted({x for x in sh if x != "any"}):
                ls.append(f"%r{k} = pdl.result {k} of %d")
            vals = []
            for x in sh:
                if x == "any":
                    ls.append("%v = pdl.operand")
                    vals.append("%v")
                else:
                    vals.append(f"%r{x}")
            ls.append("%t = pdl.type")
            ls.append(f'%root = pdl.operation "{root}" (' + ", ".join(vals) + " : " + ", ".join("!pdl.value" for _ in vals)
                      + ") -> (%t : !pdl.type)")
            if target == "operand0":
                body = [f"pdl.replace %root with ({vals[0]} : !pdl.value)"]
            else:
                body = [f"%rw = pdl.result {target} of %d", "pdl.replace %root with (%rw : !pdl.value)"]
            out.append("pdl.pattern : benefit(1) {\n" + "".join("  " + ln + "\n" for ln in ls) + "  pdl.rewrite %root {\n"
                       + "".join("    " + ln + "\n" for ln in body) + "  }\n}\n")
    return out


ATTR_SLOT_VALUES = ("0 : i32", "1 : i32", "1 : i64", None)    # {v, other, same number other type, missing}


def shared_attr_payloads() -> list[str]:
    """payload functions for the shared-attribute family, every combination of slot values:
    (i) one `"test.op"() {lo = X, hi = Y} -> i32`;  (ii) `%d = "test.op"() {lo = X}` consumed (or not: the consumer
    takes a block argument instead) by `"test.op"(%d) {hi = Y} -> i32`."""
    def ad(**kw: str | None) -> str:
        items = [f"{k} = {v}" for k, v in kw.items() if v is not None]
        return (" {" + ", ".join(items) + "}") if items else ""

    out = []
    for x in ATTR_SLOT_VALUES:
        for y in ATTR_SLOT_VALUES:
            n = len(out)
            out.append(f'func.func @a{n}(%x0: i32) -> i32 {{\n  %0 = "test.op"(){ad(lo=x, hi=y)} : () -> i32\n  func.return %0 : i32\n}}\n')
            for src in ("%0", "%x0"):
                n = len(out)
                out.append(f'func.func @a{n}(%x0: i32) -> (i32, i32) {{\n  %0 = "test.op"(){ad(lo=x)} : () -> i32\n'
                           f'  %1 = "test.op"({src}){ad(hi=y)} : (i32) -> i32\n  func.return %0, %1 : i32, i32\n}}\n')
    return out


def shared_attr_patterns() -> list[str]:
    """ONE `pdl.attribute` SSA value (constant 0 / constant 1 / unconstrained / typed-only) used in TWO attribute
    slots: two names of the root op, or the root op and the op defining its operand.  Rewrites: replace the root by
    a new test.pureop that carries the bound attribute, or (second layout) by the root's operand."""
    kinds = {"const0": ["%a = pdl.attribute = 0 : i32"], "const1": ["%a = pdl.attribute = 1 : i32"],
             "any": ["%a = pdl.attribute"], "typed": ["%ty = pdl.type : i32", "%a = pdl.attribute : %ty"]}
    out = []
    for adef in kinds.values():
        for layout in ("same-op", "root+def"):
            ls = list(adef) + ["%t = pdl.type"]
            if layout == "same-op":
                ls.append('%root = pdl.operation "test.op" {"lo" = %a, "hi" = %a} -> (%t : !pdl.type)')
                rewrites = ["new"]
            else:
                ls += ['%d = pdl.operation "test.op" {"lo" = %a} -> (%t : !pdl.type)', "%r = pdl.result 0 of %d", "%t2 = pdl.type",
                       '%root = pdl.operation "test.op" (%r : !pdl.value) {"hi" = %a} -> (%t2 : !pdl.type)']
                rewrites = ["new", "operand"]
            rt = "%t" if layout == "same-op" else "%t2"
            for rw in rewrites:
                if rw == "new":
                    body = [f'%n = pdl.operation "test.pureop" {{"seen" = %a}} -> ({rt} : !pdl.type)', "pdl.replace %root with %n"]
                else:
                    body = ["pdl.replace %root with (%r : !pdl.value)"]
                out.append("pdl.pattern : benefit(1) {\n" + "".join("  " + ln + "\n" for ln in ls) + "  pdl.rewrite %root {\n"
                           + "".join("    " + ln + "\n" for ln in body) + "  }\n}\n")
    return out


def payload_has(p: tuple, name: str) -> bool:
    return any((op[0] == "t" and name == "test.op") or (op[0] == "b" and "arith." + op[1] == name) for op in p)


# =====================================================================================================================
# running the two paths
# =====================================================================================================================
class _Timeout(BaseException):
    pass


def _alarm(_sig: int, _frm: Any) -> None:
    raise _Timeout()


_PASSES = None


def passes() -> tuple:
    """the real pass classes (apply-pdl, convert-pdl-to-pdl-interp, apply-pdl-interp)"""
    global _PASSES
    if _PASSES is None:
        from xdsl.transforms import get_all_passes

        P = get_all_passes()
        _PASSES = (P["apply-pdl"](), P["convert-pdl-to-pdl-interp"](), P["apply-pdl-interp"]())
    return _PASSES


def _guarded(fn: Any) -> tuple[str, Any]:
    """-> ("ok", None) | ("raise", ExceptionClassName, message) | ("timeout",)"""
    old = signal.signal(signal.SIGALRM, _alarm)
    signal.setitimer(signal.ITIMER_REAL, TIMEOUT_S)
    try:
        fn()
        return ("ok", None)
    except _Timeout:
        return ("timeout", None)
    except RecursionError:
        return ("timeout", None)
    except Exception as e:  # noqa: BLE001
        return ("raise", (type(e).__name__, str(e)[:200], _where(e)))
    finally:
        signal.setitimer(signal.ITIMER_REAL, 0)
        signal.signal(signal.SIGALRM, old)


def _where(e: BaseException) -> str:
    """a stable token telling WHERE a path gave up (only used to keep signatures of different defects apart): the
    pdl_interp / pdl op without an interpreter implementation, else the innermost xdsl frame `file:function`"""
    import re
    import traceback

    m = re.search(r"interpretation function for op (\S+)", str(e))
    if m:
        return m.group(1)
    for fr in reversed(traceback.extract_tb(e.__traceback__)):
        if "/xdsl/" in fr.filename:
            return f"{os.path.basename(fr.filename)}:{fr.name}"
    return "unknown"


def ptext(op: Any) -> str:
    from xdsl.printer import Printer

    s = io.StringIO()
    Printer(stream=s).print_op(op)
    return s.getvalue()


def _is_pattern_part(op: Any) -> bool:
    from xdsl.dialects import pdl, pdl_interp
    from xdsl.dialects.builtin import ModuleOp

    if isinstance(op, (pdl.PatternOp, pdl_interp.FuncOp)):
        return True
    return isinstance(op, ModuleOp) and op.sym_name is not None and op.sym_name.data == "rewriters"


def payload_ops(m: Any) -> list:
    return [o for o in m.body.ops if not _is_pattern_part(o)]


PURE = ("arith.constant", "arith.addi", "arith.muli", "arith.subi")


def strip_dead(ops: list) -> None:
    """independent trivial DCE: erase pure arith ops (allow-list) none of whose results is used, to a fixpoint"""
    changed = True
    while changed:
        changed = False
        for top in ops:
            for o in reversed(list(top.walk())):
                if o.name in PURE and o.parent is not None and all(r.first_use is None for r in o.results):
                    o.parent.erase_op(o)
                    changed = True


class Compiled:
    """one pattern, parsed once and converted once.  layout "embedded": the pattern / the generated matcher live in
    the payload module (the layout of tests/filecheck/transforms/apply-pdl/*.mlir); layout "file": they are handed
    to the passes through their pdl_file / pdl_interp_file options (apply_pdl_extra_file.mlir)."""

    def __init__(self, text: str, allow_unregistered: bool = True, layout: str = "embedded", tmpdir: str | None = None):
        from xdsl.parser import Parser

        self.text = text
        self.layout = layout
        self.err: tuple | None = None       # conversion failure ("raise"/"timeout", info)
        self.pattern_module = Parser(corpus.fresh_ctx(allow_unregistered), text).parse_module()
        self.pattern_module.verify()
        conv = self.pattern_module.clone()
        _, C, _ = passes()
        res = _guarded(lambda: C().apply(corpus.fresh_ctx(allow_unregistered), conv))
        if res[0] != "ok":
            self.err = res
            self.matcher_module = None
        else:
            self.matcher_module = conv
        self.pdl_file = self.interp_file = None
        if layout == "file":
            assert tmpdir is not None
            fd, self.pdl_file = tempfile.mkstemp(suffix=".mlir", dir=tmpdir)
            with os.fdopen(fd, "w") as f:
                f.write(text)
            if self.matcher_module is not None:
                fd, self.interp_file = tempfile.mkstemp(suffix=".mlir", dir=tmpdir)
                with os.fdopen(fd, "w") as f:
                    f.write(ptext(self.matcher_module))


def run_A(comp: Compiled, funcs: list, dce: bool = True) -> tuple:
    """real apply-pdl on module{pattern, payload...}; dce=False: same PDLRewritePattern, driver as apply-pdl-interp"""
    from xdsl.dialects.builtin import ModuleOp

    emb = comp.layout == "embedded"
    m = ModuleOp(([o.clone() for o in comp.pattern_module.body.ops] if emb else []) + [f.clone() for f in funcs])
    ctx = corpus.fresh_ctx()
    if dce:
        A, _, _ = passes()
        res = _guarded(lambda: (A() if emb else A(pdl_file=comp.pdl_file)).apply(ctx, m))
    else:
        def drive() -> None:
            from xdsl.dialects import pdl
            from xdsl.interpreters.pdl import PDLRewritePattern
            from xdsl.pattern_rewriter import GreedyRewritePatternApplier, PatternRewriteWalker

            src = m if emb else comp.pattern_module.clone()
            pats = [PDLRewritePattern(op, ctx, None) for op in src.walk() if isinstance(op, pdl.RewriteOp)]
            PatternRewriteWalker(GreedyRewritePatternApplier(pats, dce_enabled=False)).rewrite_module(m)
        res = _guarded(drive)
    return res, m


def run_B(comp: Compiled, funcs: list) -> tuple:
    from xdsl.dialects.builtin import ModuleOp

    if comp.err is not None:
        return comp.err, None
    emb = comp.layout == "embedded"
    m = ModuleOp([f.clone() for f in funcs] + ([o.clone() for o in comp.matcher_module.body.ops] if emb else []))
    _, _, B = passes()
    ctx = corpus.fresh_ctx()
    res = _guarded(lambda: (B() if emb else B(pdl_interp_file=comp.interp_file)).apply(ctx, m))
    return res, m


def _verifies(op: Any) -> bool:
    try:
        op.verify()
        return True
    except Exception:  # noqa: BLE001
        return False


_INPUT_CANON: dict[int, Any] = {}    # id(payload function) -> canon; the functions live as long as the process


def _input_canon(func: Any) -> Any:
    c = _INPUT_CANON.get(id(func))
    if c is None:
        c = _INPUT_CANON[id(func)] = (func, canon([func], normalize=True))
    return c[1]


def compare_one(comp: Compiled, func: Any, ra: tuple, fa: Any, rb: tuple, fb: Any) -> tuple[str, str | None, dict]:
    """-> (outcome label, violation kind | None, details).  fa / fb: the payload function after A / B (or None)."""
    a_ok, b_ok = ra[0] == "ok", rb[0] == "ok"
    if ra[0] == "timeout" or rb[0] == "timeout":
        if ra[0] == "timeout" and rb[0] == "timeout":
            return ("timeout:both", None, {})
        side, other = ("A", rb) if ra[0] == "timeout" else ("B", ra)
        if other[0] != "ok":
            return (f"timeout:{side}:other-raises", None, {})
        return (f"timeout:{side}:other-ok", f"one-path-does-not-terminate|{side}", {"timeout_s": TIMEOUT_S})
    if not a_ok and not b_ok:
        return (f"both-raise:{ra[1][0]}/{rb[1][0]}", None, {})
    if a_ok != b_ok:
        side, info = ("A", ra[1]) if not a_ok else ("B", rb[1])
        return (f"one-path-raises:{side}", f"one-path-raises|{side}|{info[0]}|{info[2]}", {"exception": f"{info[0]}: {info[1]}"})
    c0 = _input_canon(func)
    ca, cb = canon([fa], normalize=True), canon([fb], normalize=True)
    if ca == c0 and cb == c0:
        return ("unchanged", None, {})   # the input verified before; nothing to verify again
    # "both results verify": equal results verify alike (a pattern that builds invalid IR does so on both paths: counted,
    # not a violation); results that verify differently are different results and are judged as such below
    va = _verifies(fa) if ca != c0 else True
    vb = va if cb == ca else (_verifies(fb) if cb != c0 else True)
    tag = "" if (va and vb) else (":both-invalid" if not (va or vb) else ":one-invalid")
    if ca == cb:
        return ("rewritten" + tag, None, {})
    # -- differ: dead code left behind by one driver?
    da, db = fa.clone(), fb.clone()
    strip_dead([da])
    strip_dead([db])
    if canon([da], normalize=True) == canon([db], normalize=True):
        return ("equal-modulo-dead-code" + tag, None, {})
    # -- differ: same driver settings for both (no dce in the greedy applier)
    r2, m2 = run_A(comp, [func], dce=False)
    if r2[0] == "ok":
        f2 = payload_ops(m2)[0]
        if canon([f2], normalize=True) == cb:
            return ("equal-with-equal-driver-settings" + tag, None, {})
        ca = canon([f2], normalize=True)
        fa = f2
    if ca == c0:
        kind = "only-B-rewrites"
    elif cb == c0:
        kind = "only-A-rewrites"
    else:
        kind = "rewrites-differ"
    return ("differ:" + kind + tag, "results-differ",
            {"A": ptext(fa), "B": ptext(fb), "how": kind, "first_diff": first_op_diff(fa, fb), "A_verifies": va, "B_verifies": vb})


# =====================================================================================================================
# pattern classes (signature labels) — computed from the pattern IR, so corpus and generated patterns share them
# =====================================================================================================================
def pattern_class(pm: Any) -> tuple[str, frozenset, str]:
    """-> (root class, matching features, rewrite class)"""
    from xdsl.dialects import pdl
    from xdsl.dialects.builtin import IntegerAttr

    pat = next(o for o in pm.body.ops if isinstance(o, pdl.PatternOp))
    rw = pat.body.block.last_op
    feats: set[str] = set()
    root_op = rw.root.owner if rw.root is not None else None
    if isinstance(root_op, pdl.OperationOp) and root_op.opName is not None:
        n = root_op.opName.data
        rootc = "arith" if n in ARITH else n if n == "test.op" else "other"
    else:
        rootc = "unnamed"

    def depth(op: Any) -> int:
        d = 0
        for v in op.operand_values:
            if isinstance(v.owner, pdl.ResultOp) and isinstance(v.owner.parent_.owner, pdl.OperationOp):
                d = max(d, 1 + depth(v.owner.parent_.owner))
        return d

    match_ops = [o for o in pat.body.ops if o is not rw]
    if isinstance(root_op, pdl.OperationOp):
        d = depth(root_op)
        if d >= 1:
            feats.add("nested")
        if d >= 2:
            feats.add("nested2")
        if len(root_op.type_values) == 0:
            feats.add("no-results")
        elif len(root_op.type_values) > 1:
            feats.add("multi-results")
    n_operand_slots: dict[Any, int] = {}
    unbound = False
    for o in match_ops:
        if isinstance(o, pdl.OperationOp):
            for v in o.operand_values:
                n_operand_slots[v] = n_operand_slots.get(v, 0) + 1
        if isinstance(o, (pdl.AttributeOp, pdl.TypeOp)) and not any(u.operation.parent_op() is pat and u.operation is not rw for u in o.results[0].uses):
            if any(u.operation is rw or u.operation.parent_op() is rw for u in o.results[0].uses):
                unbound = True      # a constant of the match section that only the rewrite uses
            continue
        if isinstance(o, pdl.AttributeOp) and sum(1 for u in o.output.uses if isinstance(u.operation, pdl.OperationOp) and u.operation.parent_op() is pat) > 1:
            feats.add("attr-shared")
        if isinstance(o, pdl.AttributeOp):
            if o.value is not None:
                feats.add("attr=0" if isinstance(o.value, IntegerAttr) and o.value.value.data == 0 else "attr=const")
            elif o.value_type is not None:
                feats.add("attr-typed")
            else:
                feats.add("attr-any")
        if isinstance(o, pdl.TypeOp):
            if o.constantType is not None:
                feats.add("type=const")
            if sum(1 for u in o.result.uses if u.operation is not rw and u.operation.parent_op() is pat) > 1:
                feats.add("type=shared")
        if isinstance(o, pdl.OperandOp) and o.value_type is not None:
            feats.add("operand-typed")
        if isinstance(o, pdl.ResultOp) and o.index.value.data > 0:
            feats.add("result-index>0")
        if isinstance(o, pdl.OperationOp) and o is not root_op and len(o.type_values) > 1:
            feats.add("multi-result-def")
        if not isinstance(o, (pdl.OperationOp, pdl.AttributeOp, pdl.TypeOp, pdl.OperandOp, pdl.ResultOp)):
            feats.add("uses:" + o.name)
    if any(c > 1 for c in n_operand_slots.values()):
        feats.add("same-value")
    rws: set[str] = set()
    if unbound:
        rws.add("uses-unbound-match-constant")
    if rw.body is None or not rw.body.blocks:
        rws.add("external")
    else:
        for o in rw.body.ops:
            if isinstance(o, pdl.EraseOp):
                rws.add("erase")
            elif isinstance(o, pdl.ReplaceOp):
                if o.repl_operation is not None:
                    rws.add("replace-with-new-op")
                else:
                    src = set()
                    for v in o.repl_values:
                        own = v.owner
                        if isinstance(own, pdl.ResultOp) and own.parent_op() is rw:
                            src.add("replace-with-result-of-new-op")
                        else:
                            src.add("replace-with-operand")
                    rws |= src or {"replace-with-nothing"}
            elif isinstance(o, pdl.OperationOp):
                if not o.type_values:
                    rws.add("new-op-untyped")
                if o.attribute_values:
                    rws.add("new-op-with-attr")
    return rootc, frozenset(feats), "+".join(sorted(rws)) or "none"


def root_name(pm: Any) -> str | None:
    from xdsl.dialects import pdl

    pat = next(o for o in pm.body.ops if isinstance(o, pdl.PatternOp))
    rw = pat.body.block.last_op
    ro = rw.root.owner if rw.root is not None else None
    return ro.opName.data if isinstance(ro, pdl.OperationOp) and ro.opName is not None else None


def class_label(cls: tuple, kind: str | None = None) -> str:
    """the pattern class as it appears in a signature.  When a path RAISES the failing construct is named by the
    rewrite part (plus the `where` token of the failure kind), the matching features are left out."""
    rootc, feats, rwc = cls
    if kind is not None and kind.startswith("one-path-raises"):
        return f"rewrite={rwc}"
    return f"root={rootc}|operands={'+'.join(sorted(feats)) or 'any'}|rewrite={rwc}"


def class_features(cls: tuple, kind: str) -> frozenset:
    """feature set used to order pattern classes from general to specific (arith root, replace-with-operand = base)"""
    rootc, feats, rwc = cls
    f = {"rw:" + x for x in rwc.split("+") if x != "replace-with-operand"}
    if not kind.startswith("one-path-raises"):
        f |= set(feats)
        if rootc != "arith":
            f.add("root:" + rootc)
    return frozenset(f)


# =====================================================================================================================
# corpus patterns
# =====================================================================================================================
UNSUPPORTED = {
    "pdl.apply_native_constraint": "native-constraint", "pdl.apply_native_rewrite": "native-rewrite",
    "pdl.operands": "ranges", "pdl.types": "ranges", "pdl.results": "ranges", "pdl.range": "ranges",
}


def corpus_patterns(st: Stats | None = None) -> list[dict]:
    """every pdl.pattern op of the corpus as its own module text (+ the payload of its chunk); de-duplicated"""
    from xdsl.dialects import pdl

    out: list[dict] = []
    seen: set[Any] = set()
    for rel, ci, text in corpus.chunks():
        if "pdl.pattern" not in text:
            continue
        m = corpus.parse(text, rel)
        if m is None:
            if st:
                st.outcomes["corpus:chunk-not-a-verified-module"] += 1
            continue
        own = [o for o in m.body.ops if not isinstance(o, pdl.PatternOp)]
        own_text = "".join(ptext(o) + "\n" for o in own) if own else None
        for pi, p in enumerate(o for o in m.body.ops if isinstance(o, pdl.PatternOp)):
            if st:
                st.transitions += 1
            reason = None
            rw = p.body.block.last_op
            for o in p.walk():
                if o.name in UNSUPPORTED:
                    reason = UNSUPPORTED[o.name]
                    break
            if reason is None and isinstance(rw, pdl.RewriteOp) and (rw.name_ is not None or rw.body is None or not rw.body.blocks):
                reason = "native-rewrite"
            if reason is None and isinstance(rw, pdl.RewriteOp) and rw.root is None:
                reason = "no-root"
            if reason is None and not any(isinstance(o, (pdl.ReplaceOp, pdl.EraseOp)) and o.op_value is rw.root for o in rw.body.ops):
                reason = "root-neither-replaced-nor-erased"   # conversion-only test input; loops under any greedy driver
            if reason is not None:
                if st:
                    st.outcomes[f"corpus:pattern-skipped:{reason}"] += 1
                continue
            key = (canon([p], normalize=True), own_text)
            if key in seen:
                if st:
                    st.outcomes["corpus:pattern-duplicate"] += 1
                continue
            seen.add(key)
            match_names = [o.opName.data if o.opName is not None else None for o in p.body.ops if isinstance(o, pdl.OperationOp)]
            made = {o.opName.data for o in rw.body.ops if isinstance(o, pdl.OperationOp) and o.opName is not None}
            out.append({"file": rel, "chunk": ci, "index": pi, "text": ptext(p) + "\n", "own": own_text,
                        "unnamed": None in match_names,
                        # a rewrite that creates an op carrying a name the pattern matches on may not terminate on
                        # arbitrary payloads (apply_pdl_swap_inputs.mlir): such patterns only get their own payloads
                        "may_loop": None in match_names or bool(made & set(match_names))})
    return out


def witness_payload(pm: Any) -> str | None:
    """a payload function built from the match DAG of the pattern (so that >= 1 match exists); generic text"""
    from xdsl.dialects import pdl

    pat = next(o for o in pm.body.ops if isinstance(o, pdl.PatternOp))
    rw = pat.body.block.last_op
    val: dict[Any, str] = {}
    ty: dict[Any, str] = {}
    args: list[tuple[str, str]] = []
    lines: list[str] = []
    results: dict[Any, list[tuple[str, str]]] = {}
    used: set[str] = set()
    k = 0

    def type_of(v: Any) -> str:
        if v is None:
            return "i32"
        o = v.owner
        if isinstance(o, pdl.TypeOp) and o.constantType is not None:
            return str(o.constantType)
        return "i32"

    for o in pat.body.ops:
        if o is rw:
            break
        if isinstance(o, pdl.OperandOp):
            n = f"%arg{len(args)}"
            t = type_of(o.value_type)
            args.append((n, t))
            val[o.value], ty[o.value] = n, t
        elif isinstance(o, pdl.OperationOp):
            name = o.opName.data if o.opName is not None else "test.op"
            ops = []
            for v in o.operand_values:
                if v not in val:
                    return None
                ops.append(v)
            attrs = []
            for an, av in zip(o.attributeValueNames.data, o.attribute_values):
                ao = av.owner
                if not isinstance(ao, pdl.AttributeOp):
                    return None
                if ao.value is not None:
                    attrs.append(f"{an.data} = {ao.value}")
                else:
                    attrs.append(f"{an.data} = 1 : {type_of(ao.value_type)}")
            rts = [type_of(t) for t in o.type_values]
            rn = [f"%r{k}_{i}" for i in range(len(rts))]
            k += 1
            used |= {val[v] for v in ops}
            results[o.op] = list(zip(rn, rts))
            lhs = (", ".join(rn) + " = ") if rn else ""
            lines.append(f'{lhs}"{name}"({", ".join(val[v] for v in ops)})' + (" {" + ", ".join(attrs) + "}" if attrs else "")
                         + f' : ({", ".join(ty[v] for v in ops)}) -> ({", ".join(rts)})')
        elif isinstance(o, pdl.ResultOp):
            rs = results.get(o.parent_)
            if rs is None or o.index.value.data >= len(rs):
                return None
            val[o.val], ty[o.val] = rs[o.index.value.data]
    rets = [(n, t) for rs in results.values() for n, t in rs if n not in used]
    lines.append("func.return" + (" " + ", ".join(n for n, _ in rets) + " : " + ", ".join(t for _, t in rets) if rets else ""))
    sig = ", ".join(f"{n}: {t}" for n, t in args)
    rs_ = (" -> (" + ", ".join(t for _, t in rets) + ")") if rets else ""
    return f"func.func @w({sig}){rs_} {{\n" + "".join("  " + ln + "\n" for ln in lines) + "}\n"


# =====================================================================================================================
# shards
# =====================================================================================================================
_PAYLOAD_FUNCS: list | None = None     # parsed once in the parent, inherited by the forked workers
_PAYLOAD_SPECS: list | None = None
_ATTR_FUNCS: list | None = None       # payloads of the shared-attribute family (shared_attr_payloads)
_MULTI_FUNCS: list | None = None      # payloads with a two-result definition (multi_result_payloads)
_N_ALWAYS = 0
BATCH = 64


def _load_payloads(quick: bool) -> None:
    global _PAYLOAD_FUNCS, _PAYLOAD_SPECS, _N_ALWAYS, _MULTI_FUNCS, _ATTR_FUNCS
    from xdsl.parser import Parser

    specs, _N_ALWAYS = payload_set(quick)
    text = "".join(render_payload(p, f"f{i}") for i, p in enumerate(specs))
    m = Parser(corpus.fresh_ctx(), text).parse_module()
    m.verify()
    _PAYLOAD_SPECS = specs
    _PAYLOAD_FUNCS = list(m.body.ops)
    text = "".join(render_payload(p, f"m{i}") for i, p in enumerate(multi_result_payloads()))
    mm = Parser(corpus.fresh_ctx(), text).parse_module()
    mm.verify()
    _MULTI_FUNCS = list(mm.body.ops)
    am = Parser(corpus.fresh_ctx(), "".join(shared_attr_payloads())).parse_module()
    am.verify()
    _ATTR_FUNCS = list(am.body.ops)
    for f in _PAYLOAD_FUNCS + _MULTI_FUNCS + _ATTR_FUNCS:
        _input_canon(f)


def payloads_for(root_name: str | None) -> list[int]:
    """indices of the payloads a pattern with this root op name is run on"""
    assert _PAYLOAD_SPECS is not None
    return [i for i, p in enumerate(_PAYLOAD_SPECS) if i < _N_ALWAYS or (root_name is not None and payload_has(p, root_name))]


def _record(st: Stats, cls: tuple, kind: str | None, outcome: str, details: dict, wit: dict) -> None:
    st.outcomes[outcome] += 1
    if kind is not None:
        st.violate(f"C27|{class_label(cls, kind)}|{kind}",
                   f"apply-pdl and convert-pdl-to-pdl-interp + apply-pdl-interp disagree ({kind.replace('|', ' ')}) for a pattern of class {class_label(cls)}",
                   {**wit, **details, "class": [cls[0], sorted(cls[1]), cls[2]], "kind": kind})


def check_pairs(st: Stats, comp: Compiled, cls: tuple, funcs: list, wit_of: Any) -> None:
    """all payload functions `funcs` against one compiled pattern, batched"""
    for b0 in range(0, len(funcs), BATCH):
        batch = funcs[b0:b0 + BATCH]
        ra, ma = run_A(comp, batch)
        rb, mb = run_B(comp, batch)
        st.transitions += 2
        if ra[0] == "ok" and rb[0] == "ok":
            fas, fbs = payload_ops(ma), payload_ops(mb)
            if len(fas) == len(batch) and len(fbs) == len(batch):
                for i, f in enumerate(batch):
                    _one(st, comp, cls, f, ra, fas[i], rb, fbs[i], wit_of(b0 + i))
                continue
        # a path raised / timed out / removed a function: one payload at a time
        if len(batch) > 1:
            st.bump("batches_rerun_individually")
        for i, f in enumerate(batch):
            if len(batch) > 1:
                ra, ma = run_A(comp, [f])
                rb, mb = run_B(comp, [f])
                st.transitions += 2
            fa = (payload_ops(ma) or [None])[0] if ra[0] == "ok" else None
            fb = (payload_ops(mb) or [None])[0] if rb[0] == "ok" else None
            if ra[0] == "ok" and rb[0] == "ok" and (fa is None or fb is None):
                # the pattern rewrote the enclosing function / module itself (unnamed root)
                st.states += 1
                st.executions += 1
                if fa is None and fb is None:
                    _record(st, cls, None, "payload-container-removed-by-both", {}, {})
                else:
                    _record(st, cls, "results-differ", "differ:payload-container-removed-by-one",
                            {"how": "container removed by " + ("A" if fa is None else "B")}, {**wit_of(b0 + i), "payload": ptext(f)})
                continue
            if (ra[0] == "ok" and fa is None) or (rb[0] == "ok" and fb is None):
                fa = fb = None   # one path raised, the other removed the container: compare_one only looks at ra / rb
            _one(st, comp, cls, f, ra, fa, rb, fb, wit_of(b0 + i))


def _one(st: Stats, comp: Compiled, cls: tuple, f: Any, ra: tuple, fa: Any, rb: tuple, fb: Any, wit: dict) -> None:
    st.states += 1
    st.executions += 1
    st.evaluations += 3
    outcome, kind, details = compare_one(comp, f, ra, fa, rb, fb)
    if outcome.startswith("timeout") and kind is None:
        st.cap(f"apply() exceeded {TIMEOUT_S:.0f} s on some (pattern, payload); those pairs are not compared")
    if not outcome.startswith(("unchanged", "timeout")):
        st.nontrivial += 1
    if kind is not None:
        wit = {**wit, "payload": ptext(f)}
    _record(st, cls, kind, outcome, details, wit)


def _gen_shard(arg: tuple) -> Stats:
    quick, lo, hi, seed = arg
    st = Stats()
    specs = gen_patterns(not quick)[lo:hi]
    assert _PAYLOAD_FUNCS is not None
    for pi, spec in enumerate(specs):
        text = render_pattern(spec)
        idx = payloads_for(spec["root"][0])
        funcs = [_PAYLOAD_FUNCS[i] for i in idx]
        st.transitions += 1
        comp = Compiled(text, allow_unregistered=False)
        cls = pattern_class(comp.pattern_module)
        st.outcomes["pattern-class:" + class_label(cls)] += 1  # patterns per class (not pairs)
        if comp.err is not None:
            st.outcomes[f"conversion-{comp.err[0]}"] += 1
        check_pairs(st, comp, cls, funcs, lambda i, text=text, idx=idx: {"pattern": text, "payload_index": idx[i]})
        if (lo + pi + seed) % 97 == 0:
            st.sample({"pattern": text, "class": class_label(cls)})
    return st


def _corpus_shard(arg: tuple) -> Stats:
    _i, items, both_layouts, seed = arg
    from xdsl.dialects.builtin import ModuleOp
    from xdsl.dialects.func import FuncOp
    from xdsl.parser import Parser

    st = Stats()
    assert _PAYLOAD_FUNCS is not None
    tmp = tempfile.mkdtemp(prefix="c27_")
    try:
        for it in items:
            st.transitions += 1
            # an unnamed pdl.operation would also match the pattern / matcher ops themselves when they are embedded
            layouts = ["file"] if it["unnamed"] else (["embedded", "file"] if both_layouts else ["embedded"])
            for layout in layouts:
                try:
                    comp = Compiled(it["text"], layout=layout, tmpdir=tmp)
                except Exception as e:  # noqa: BLE001
                    st.outcomes[f"corpus:pattern-alone-not-a-module:{type(e).__name__}"] += 1
                    break
                cls = pattern_class(comp.pattern_module)
                if comp.err is not None:
                    st.outcomes[f"conversion-{comp.err[0]}"] += 1
                src = {"file": it["file"], "chunk": it["chunk"], "index": it["index"], "layout": layout}
                own: list = []
                for label, text in (("own-chunk", it["own"]), ("witness", witness_payload(comp.pattern_module))):
                    if text is None:
                        continue
                    try:
                        pm = Parser(corpus.fresh_ctx(), text).parse_module()
                        pm.verify()
                    except Exception:  # noqa: BLE001
                        st.outcomes[f"corpus:{label}-payload-unusable"] += 1
                        continue
                    ops = list(pm.body.ops)
                    if not all(isinstance(o, FuncOp) for o in ops):
                        # free-standing payload ops: keep them together inside one nested module
                        for o in ops:
                            o.detach()
                        ops = [ModuleOp(ops)]
                    own += [(label, o) for o in ops]
                for label, f in own:
                    check_pairs(st, comp, cls, [f], lambda i, label=label: {**src, "pattern": it["text"], "payload_kind": label})
                rn = root_name(comp.pattern_module)
                if rn in NAMES and not it["may_loop"]:
                    idx = payloads_for(rn)
                    check_pairs(st, comp, cls, [_PAYLOAD_FUNCS[i] for i in idx],
                                lambda i, idx=idx: {**src, "pattern": it["text"], "payload_index": idx[i]})
                elif rn in NAMES:
                    st.outcomes["corpus:pattern-own-payloads-only:may-not-terminate"] += 1
            if (it["chunk"] + it["index"] + seed) % 5 == 0:
                st.sample({"file": it["file"], "chunk": it["chunk"], "index": it["index"]})
    finally:
        shutil.rmtree(tmp, ignore_errors=True)
    return st


# =====================================================================================================================
def _family_shard(arg: tuple) -> Stats:
    """the small hand-shaped families: every pattern of the family x every payload of the family"""
    fam, lo, hi, seed = arg
    st = Stats()
    patterns, funcs = {"multi": (multi_result_patterns, _MULTI_FUNCS), "attr": (shared_attr_patterns, _ATTR_FUNCS)}[fam]
    assert funcs is not None
    for pi, text in enumerate(patterns()[lo:hi]):
        st.transitions += 1
        comp = Compiled(text, allow_unregistered=False)
        cls = pattern_class(comp.pattern_module)
        st.outcomes["pattern-class:" + class_label(cls)] += 1
        if comp.err is not None:
            st.outcomes[f"conversion-{comp.err[0]}"] += 1
        check_pairs(st, comp, cls, funcs, lambda i, text=text: {"pattern": text, "family": fam, "family_payload_index": i})
        if (lo + pi + seed) % 11 == 0:
            st.sample({"pattern": text, "class": class_label(cls)})
    return st


def _shard(task: tuple) -> Stats:
    return {"corpus": _corpus_shard, "gen": _gen_shard, "family": _family_shard}[task[0]](task[1:])


def _minimise_signatures(stats: list[Stats]) -> None:
    """A defect shows up under every pattern class that contains the triggering feature.  Re-key every violation to
    the smallest violating class (feature subset, same failure kind) so that one defect gives one narrow signature;
    counts are added up, nothing is dropped."""
    viol: dict[str, dict] = {}
    for st in stats:
        for sig, v in st.violations.items():
            viol.setdefault(sig, v)

    def key(sig: str) -> tuple:
        w = viol[sig]["witness"]
        c = w["class"]
        return class_features((c[0], frozenset(c[1]), c[2]), w["kind"]), w["kind"]

    keys = {s: key(s) for s in viol}
    order = sorted(viol, key=lambda s: (len(keys[s][0]), s))
    target: dict[str, str] = {}
    for s in order:
        f, k = keys[s]
        target[s] = next((t for t in order if target.get(t) == t and keys[t][1] == k and keys[t][0] <= f), s)
    for st in stats:
        new: dict[str, dict] = {}
        for sig, v in st.violations.items():
            t = target[sig]
            if t == sig:
                ent = v
            else:
                ent = dict(viol[t])
                ent["count"] = v["count"]
                st.bump("violations_filed_under_a_simpler_class", v["count"])
            if t in new:
                new[t]["count"] += ent["count"]
            else:
                new[t] = dict(ent)
        st.violations = new


def run(ctx: Any) -> None:
    quick = ctx.quick
    _load_payloads(quick)
    assert _PAYLOAD_FUNCS is not None
    pats = gen_patterns(not quick)
    pre = Stats()
    cps = corpus_patterns(pre)
    per = 4
    tasks = [(quick, lo, min(lo + per, len(pats)), ctx.seed) for lo in range(0, len(pats), per)]
    # corpus shards first (a non-terminating path costs TIMEOUT_S per call); results are merged in task order, not
    # completion order, so witnesses and samples do not depend on scheduling
    ctasks = [("corpus", i, cps[i:i + 2], not quick, ctx.seed) for i in range(0, len(cps), 2)]
    nm = len(multi_result_patterns())
    na = len(shared_attr_patterns())
    mtasks = [("family", "multi", lo, min(lo + 3, nm), ctx.seed) for lo in range(0, nm, 3)]
    mtasks += [("family", "attr", lo, min(lo + 3, na), ctx.seed) for lo in range(0, na, 3)]
    rank = {"gen": 0, "family": 1, "corpus": 2}
    res = sorted(pmap(_shard, ctasks + mtasks + [("gen",) + t for t in tasks]),
                 key=lambda r: (rank[r[0][0]], r[0][1] if r[0][0] == "family" else "", r[0][2] if r[0][0] != "corpus" else r[0][1]))
    stats = [pre] + [st for _, st in res]
    _minimise_signatures(stats)
    for st in stats:
        ctx.merge(st)
    ctx.bounds = {
        "generated_patterns": len(pats), "corpus_patterns": len(cps), "payloads": len(_PAYLOAD_FUNCS),
        "shared_attribute_family": {"patterns": na, "payloads": len(_ATTR_FUNCS or []),
                                    "what": "one pdl.attribute value (constant 0 / constant 1 / unconstrained / typed-only) in two attribute "
                                            "slots (two names of the root; root + operand-defining op); payloads: every combination "
                                            "of slot values {0:i32, 1:i32, 1:i64, missing}, consumer wired to the definition or not"},
        "multi_result_family": {"patterns": nm, "payloads": len(_MULTI_FUNCS or []),
                                "what": "pdl.result k of a two-result definition, k in {0,1}, consumers use result 0 / 1 / both in either order; "
                                        "payloads: one two-result test.op + 1-2 consumers, all wirings"},
        "pattern_tree": "root in {addi,muli,subi,test.op}; operands any/same/nested (depth<=2, arith.constant value=0/1/2); "
                        "types any/i32/shared; rewrites operand/nested-operand/new-op/new-constant/erase",
        "payloads_run_against_every_pattern": _N_ALWAYS,
        "payload_families": (["<=2 ops over {c0,c1,addi,muli,test.op with 0-2 operands and 0/1 result}",
                              "<=3 ops over {c0,c1,addi,test.op(x)->i32}"] if quick else
                             ["<=2 ops over {c0,c1,c2,addi,muli,subi,test.op with 0-2 operands and 0/1 result}",
                              "<=3 ops over {c0,c1,addi,muli,test.op(x)->i32,test.op(x)->()}",
                              "<=4 ops over {c0,addi}"]),
        "corpus_layouts": ["embedded"] if quick else ["embedded", "file"],
        "timeout_s_per_apply": TIMEOUT_S,
    }
    ctx.rule = ("states = (pattern, payload function) pairs: every generated / corpus pattern x every payload of the first family "
                "and x every payload of the other families that contains an op with the pattern's root name "
                "(payloads: all operand wirings, every value used, modulo swapping the two block arguments); "
                "transitions = patterns converted + apply() calls; non-trivial = at least one path rewrote the payload, raised "
                "or did not terminate")
    ctx.assumptions = [
        "patterns cannot match across functions, so several payload functions share one module per apply() call",
        "differences that vanish after erasing trivially dead arith ops, or when PDLRewritePattern is driven with the "
        "driver settings of apply-pdl-interp (no dce in the applier), are driver settings, not pattern semantics",
        "canonical form mc/canon.py (normalize=True)",
    ]


def replay(rep: dict) -> bool:
    from xdsl.parser import Parser

    w = rep["witness"]
    tmp = tempfile.mkdtemp(prefix="c27_")
    try:
        comp = Compiled(w["pattern"], layout=w.get("layout", "embedded"), tmpdir=tmp)
        pm = Parser(corpus.fresh_ctx(), w["payload"]).parse_module()
        f = list(pm.body.ops)[0]
        f.detach()
        st = Stats()
        check_pairs(st, comp, pattern_class(comp.pattern_module), [f], lambda i: {})
    finally:
        shutil.rmtree(tmp, ignore_errors=True)
    return not st.violations
