"""C28 — equality saturation preserves program results.

Bounded-exhaustive: every pure i32 `func.func` of a stated small shape (see `programs`) is pushed through the
documented eqsat pipelines

  identity      eqsat-create-eclasses, eqsat-add-costs{default=1}, eqsat-extract      (tests/filecheck/projects/eqsat/identity.mlir)
  no-costs      eqsat-create-eclasses, eqsat-extract            (documented to keep un-costed classes: eqsat-extract.mlir
                                                                 @trivial_no_extraction; classes are then transparent)
  rules         eqsat-create-eclasses, apply-eqsat-pdl-interp{max_iterations=1..3}, eqsat-add-costs{default=1}, eqsat-extract
                with the matcher produced by convert-pdl-to-pdl-interp (+ convert-pdl-interp-to-eqsat-pdl-interp)
                from every SOUND arith PDL rule of the .mlir corpus, individually and pairwise
                (apply-eqsat-pdl itself shells out to mlir-opt, which does not exist here)

like xdsl-opt does: the module is verified after every pass.  Every case is within the documented support (pure
single-result arith ops in one block, sound rules), so a pass that aborts -- with one of xDSL's diagnostics
(`aborts-on-sound-rules` / `fails-on-valid-program`) or a built-in Python exception (`raises-internal`) -- or that
leaves a module that does not verify is a violation: no program was yielded.  The extracted
program must verify, define every value before its use, contain no eqsat op, and return what the source returns
(mc.refsem) on every boundary input on which the source is defined; the rule-free pipelines must additionally give
back the source up to op order.  A matcher shipped in the corpus next to its PDL source (rebuilding.mlir) is used as
a second matcher for its rule set.

Further enumerated dimensions (each exhaustive within its stated bound, see `pipelines_for` / `enumerate_programs`):
property twins (two arith.cmpi equal up to the predicate PROPERTY on shared operands behind an identity a rule fires
on, observed as i1 results or through arith.select: congruence closure must not union them); cost models (the corpus
cost file and every {0,1} cost assignment to constant/addi/muli/subi as a cost_file next to default=1: a zero-cost
self-referential e-node must never be selected -- an extracted value that depends on itself is a violation, the
program cannot be executed); pattern order of rule pairs; two-function modules (a rule creating a constant in one
function while the same constant lives in the other: every function must verify and compute its own results);
identity chains (2..3 nested x+0 / x*1 on one value feeding a further op: unions of e-classes of different sizes).

Rule soundness is decided here, not assumed: lhs/rhs of every corpus rule are turned into two functions and compared
with mc.refsem on a dense i32 grid and exhaustively at i4 (refinement: wherever the lhs is defined the rhs is defined
and equal); unsound / unsupported rules are skipped and counted.
"""
from __future__ import annotations

import itertools
import signal

from mc.stats import Stats
from mc.pool import pmap

CONSTS_Q = (0, 1, 2)
CONSTS_T = (0, 1, 2, -1)
BINS = ("arith.addi", "arith.muli", "arith.subi", "arith.divui")
BOUNDARY = (0, 1, -1, 2, 3, 7, 2 ** 31 - 1, -2 ** 31)
DENSE = tuple(sorted(set(BOUNDARY) | set(range(-4, 9))))
CASE_TIMEOUT_S = 30


# ======================================================================================
# programs
# ======================================================================================
def programs(k: int, n: int, consts: tuple, nbins: int, extra_returns: bool):
    """Every program with k i32 arguments and 1..n ops: m constants first (a multiset of `consts`, non-decreasing),
    then b >= 1 binary ops over BINS[:nbins] with EVERY operand wiring (so the same value twice, diamonds, ...);
    every argument and every constant is used, argument 0 is first used before argument 1 (renaming symmetry);
    returned: all values without a use by an op (in definition order) and, if extra_returns, additionally each
    variant that also returns one already-used value (argument or op result) as the last result."""
    for m in range(0, n):
        for b in range(1, n - m + 1):
            for cs in itertools.combinations_with_replacement(consts, m):
                base = k + m
                for names in itertools.product(range(nbins), repeat=b):
                    wir = [itertools.product(range(base + p), repeat=2) for p in range(b)]
                    for w in itertools.product(*wir):
                        nv = base + b
                        used = [0] * nv
                        order = []
                        for i, j in w:
                            used[i] += 1
                            used[j] += 1
                            for x in (i, j):
                                if x < k and x not in order:
                                    order.append(x)
                        if any(used[x] == 0 for x in range(base)):
                            continue
                        if order != sorted(order):
                            continue
                        bins = tuple((names[p], w[p][0], w[p][1]) for p in range(b))
                        sinks = tuple(x for x in range(base, nv) if used[x] == 0)
                        yield (k, cs, bins, sinks)
                        if extra_returns:
                            for x in range(nv):
                                if used[x]:
                                    yield (k, cs, bins, sinks + (x,))


def trivial_programs():
    """programs without a binary op: arguments / constants returned directly"""
    yield (1, (), (), (0,))
    yield (1, (), (), (0, 0))
    yield (2, (), (), (1, 0))
    yield (1, (1,), (), (1,))
    yield (1, (0,), (), (0, 1))
    yield (1, (2, 2), (), (1, 2))


CMPI = ("eq", "ne", "slt", "sle", "sgt", "sge", "ult", "ule", "ugt", "uge")
SELECT = len(BINS) + len(CMPI)     # op codes: 0..3 BINS, 4..13 arith.cmpi <CMPI[o-4]>, 14 arith.select
FUNC_NAMES = ("f", "g")


def op_name(o: int) -> str:
    return BINS[o] if o < len(BINS) else ("arith.cmpi" if o < SELECT else "arith.select")


def value_types(spec) -> list[str]:
    k, cs, ops, _ = spec
    ts = ["i32"] * (k + len(cs))
    for o, *xs in ops:
        ts.append("i32" if o < len(BINS) else ("i1" if o < SELECT else ts[xs[1]]))
    return ts


def text_of(spec, name: str = "f") -> str:
    k, cs, ops, rets = spec
    ts = value_types(spec)
    names = [f"%a{i}" for i in range(k)]
    lines = []
    for c in cs:
        names.append(f"%v{len(names)}")
        lines.append(f"  {names[-1]} = arith.constant {c} : i32")
    for o, *xs in ops:
        nm = f"%v{len(names)}"
        if o < len(BINS):
            lines.append(f"  {nm} = {BINS[o]} {names[xs[0]]}, {names[xs[1]]} : i32")
        elif o < SELECT:
            lines.append(f"  {nm} = arith.cmpi {CMPI[o - len(BINS)]}, {names[xs[0]]}, {names[xs[1]]} : {ts[xs[0]]}")
        else:
            lines.append(f"  {nm} = arith.select {names[xs[0]]}, {names[xs[1]]}, {names[xs[2]]} : {ts[xs[1]]}")
        names.append(nm)
    args = ", ".join(f"{names[i]}: i32" for i in range(k))
    rt = ", ".join(ts[r] for r in rets)
    lines.append(f"  func.return {', '.join(names[r] for r in rets)} : {rt}")
    return f"func.func @{name}({args}) -> ({rt}) {{\n" + "\n".join(lines) + "\n}"


def text_of_case(specs) -> str:
    return "\n".join(text_of(sp, FUNC_NAMES[i]) for i, sp in enumerate(specs))


def build(specs):
    """a module with one function per spec (@f, @g)"""
    from xdsl.dialects import arith, builtin, func
    from xdsl.ir import Block, Region

    i32 = builtin.i32
    cls = (arith.AddiOp, arith.MuliOp, arith.SubiOp, arith.DivUIOp)
    funcs = []
    for fi, (k, cs, ops, rets) in enumerate(specs):
        block = Block(arg_types=[i32] * k)
        vals = list(block.args)
        for c in cs:
            op = arith.ConstantOp(builtin.IntegerAttr(c, i32))
            block.add_op(op)
            vals.append(op.result)
        for o, *xs in ops:
            if o < len(BINS):
                op = cls[o](vals[xs[0]], vals[xs[1]])
            elif o < SELECT:
                op = arith.CmpiOp(vals[xs[0]], vals[xs[1]], CMPI[o - len(BINS)])
            else:
                op = arith.SelectOp(vals[xs[0]], vals[xs[1]], vals[xs[2]])
            block.add_op(op)
            vals.append(op.results[0])
        block.add_op(func.ReturnOp(*[vals[r] for r in rets]))
        funcs.append(func.FuncOp(FUNC_NAMES[fi], ([i32] * k, [vals[r].type for r in rets]), Region(block)))
    return builtin.ModuleOp(funcs)


def shape_class(specs) -> str:
    if len(specs) > 1:
        return "two-functions"
    k, cs, ops, rets = specs[0]
    if any(o >= len(BINS) for o, *_ in ops):
        return "property-twins"
    if len(rets) > 1:
        return "multi-result"
    used: dict[int, int] = {}
    for _, *xs in ops:
        for x in xs:
            used[x] = used.get(x, 0) + 1
    if any(v > 1 for v in used.values()):
        return "shared-subexpression"
    if cs:
        return "constant-operand"
    return "plain"


# ======================================================================================
# independent views of a function body
# ======================================================================================
def the_func(module, name: str = "f"):
    for op in module.body.block.ops:
        if op.name == "func.func" and op.properties["sym_name"].data == name:
            return op
    return None


def eqsat_ops(fn) -> list[str]:
    return sorted({op.name for op in fn.walk() if op.name.startswith("equivalence.") or "eqsat" in op.name
                   or op.name.startswith("ematch.")})


def use_before_def(fn) -> str | None:
    block = fn.regions[0].blocks[0]
    seen = {id(a) for a in block.args}
    for op in block.ops:
        for o in op.operands:
            if id(o) not in seen:
                return op.name
        for r in op.results:
            seen.add(id(r))
    return None


def tree_form(fn, transparent_classes: bool = False):
    """order-insensitive structural form: (sorted multiset of op trees, tuple of returned trees, leftover-cost flag)."""
    from mc.canon import attr_key

    block = fn.regions[0].blocks[0]
    argkey = {id(a): ("arg", i) for i, a in enumerate(block.args)}
    memo: dict[int, object] = {}
    busy: set[int] = set()
    leftover = [False]

    def vkey(v):
        if id(v) in argkey:
            return argkey[id(v)]
        op = v.owner
        idx = list(op.results).index(v)
        return (okey(op), idx)

    def okey(op):
        if id(op) in memo:
            return memo[id(op)]
        if id(op) in busy:
            return ("cycle",)
        busy.add(id(op))
        if transparent_classes and op.name == "equivalence.class" and len(op.operands) == 1:
            key = ("same-as", vkey(op.operands[0]))
        else:
            attrs = []
            for kind, d in (("p", op.properties), ("a", op.attributes)):
                for name in sorted(d):
                    if name == "eqsat_cost":
                        leftover[0] = True
                        continue
                    attrs.append((kind, name, attr_key(d[name])))
            key = (op.name, tuple(attrs), tuple(vkey(o) for o in op.operands), len(op.regions))
        busy.discard(id(op))
        memo[id(op)] = key
        return key

    def strip(key):
        # a transparent class stands for its operand
        if isinstance(key, tuple) and len(key) == 2 and isinstance(key[0], tuple) and key[0][:1] == ("same-as",):
            return strip(key[0][1])
        if isinstance(key, tuple) and key[:1] == ("same-as",):
            return strip(key[1])
        if isinstance(key, tuple):
            return tuple(strip(x) for x in key)
        return key

    ops = []
    rets = None
    for op in block.ops:
        if op.name == "func.return":
            rets = tuple(strip(vkey(o)) for o in op.operands)
        elif transparent_classes and op.name == "equivalence.class" and len(op.operands) == 1:
            continue
        else:
            ops.append(strip(okey(op)))
    return (tuple(sorted(ops, key=repr)), rets), leftover[0]


# ======================================================================================
# rules: corpus -> (lhs, rhs) -> soundness
# ======================================================================================
RULE_FILES_SUBDIRS = ("tests", "docs")


def corpus_patterns() -> list[tuple[str, str]]:
    """(printed pdl.pattern, 'file#chunk') for every pdl.pattern of the .mlir corpus mentioning an arith op; printed
    form de-duplicated, file order."""
    from mc import corpus

    seen: dict[str, str] = {}
    for sub in RULE_FILES_SUBDIRS:
        for rel, i, text in corpus.chunks(sub):
            if "pdl.pattern" not in text or "arith." not in text:
                continue
            m = corpus.parse(text, verify=False)
            if m is None:
                continue
            for op in m.walk():
                if op.name == "pdl.pattern":
                    s = str(op)
                    if '"arith.' in s:
                        seen.setdefault(s, f"{rel}#{i}")
    return list(seen.items())


class _Unsupported(Exception):
    pass


def translate(pat):
    """pdl.pattern -> (nvars, lhs root term, replacement term, fixed type or None).  Terms:
    ("var", n) | ("res", optuple) with optuple = ("op", name, operand terms, ((attr, Attribute|None), ...))."""
    from xdsl.dialects import pdl

    env: dict[int, object] = {}
    nvars = 0
    fixed = [None]

    def typ(v):
        t = env[id(v)]
        if t[0] != "type":
            raise _Unsupported("type-range")
        if t[1] is not None:
            if fixed[0] is not None and fixed[0] != str(t[1]):
                raise _Unsupported("two-fixed-types")
            fixed[0] = str(t[1])

    def visit(op, in_rewrite: bool):
        nonlocal nvars
        if isinstance(op, pdl.TypeOp):
            env[id(op.result)] = ("type", op.constantType)
        elif isinstance(op, pdl.OperandOp):
            if in_rewrite:
                raise _Unsupported("operand-in-rewrite")
            if op.value_type is not None:
                typ(op.value_type)
            env[id(op.value)] = ("var", nvars)
            nvars += 1
        elif isinstance(op, pdl.AttributeOp):
            if op.value_type is not None:
                typ(op.value_type)
            env[id(op.output)] = ("attr", op.value)
        elif isinstance(op, pdl.OperationOp):
            if op.opName is None:
                raise _Unsupported("unnamed-operation")
            if len(op.type_values) != 1:
                raise _Unsupported("not-single-result")
            typ(op.type_values[0])
            operands = []
            for o in op.operand_values:
                t = env[id(o)]
                if t[0] not in ("var", "res"):
                    raise _Unsupported("operand-range")
                operands.append(t)
            attrs = []
            for nm, a in zip(op.attributeValueNames.data, op.attribute_values):
                attrs.append((nm.data, env[id(a)][1]))
            env[id(op.op)] = ("op", op.opName.data, tuple(operands), tuple(attrs))
        elif isinstance(op, pdl.ResultOp):
            if op.index.value.data != 0:
                raise _Unsupported("result-index")
            env[id(op.val)] = ("res", env[id(op.parent_)])
        else:
            raise _Unsupported(op.name)

    root = repl = None
    for op in pat.body.block.ops:
        if isinstance(op, pdl.RewriteOp):
            if op.root is None or op.body is None or not op.body.blocks:
                raise _Unsupported("external-rewrite")
            root = env[id(op.root)]
            for r in op.body.block.ops:
                if isinstance(r, pdl.ReplaceOp):
                    if env[id(r.op_value)] is not root:
                        raise _Unsupported("replaces-non-root")
                    if repl is not None:
                        raise _Unsupported("two-replacements")
                    if r.repl_operation is not None:
                        repl = ("res", env[id(r.repl_operation)])
                    elif len(r.repl_values) == 1 and env[id(r.repl_values[0])][0] in ("var", "res"):
                        repl = env[id(r.repl_values[0])]
                    else:
                        raise _Unsupported("replacement-range")
                else:
                    visit(r, True)
        else:
            visit(op, False)
    if root is None:
        raise _Unsupported("no-rewrite")
    if repl is None:
        raise _Unsupported("no-replacement")
    return nvars, ("res", root), repl, fixed[0]


def render(t) -> str:
    if t[0] == "var":
        return f"x{t[1]}"
    _, name, operands, attrs = t[1]
    short = name.split(".")[-1]
    if short == "constant":
        vals = [a for nm, a in attrs if nm == "value" and a is not None]
        if vals and hasattr(vals[0], "value"):
            return f"c{vals[0].value.data}"
        return "c?"
    return f"{short}({','.join(render(o) for o in operands)})"


def emit_func(fname: str, nvars: int, t, T: str) -> str:
    from xdsl.dialects.builtin import IntegerAttr

    lines: list[str] = []
    names: dict[int, str] = {}

    def val(t):
        if t[0] == "var":
            return f"%x{t[1]}"
        o = t[1]
        if id(o) in names:
            return names[id(o)]
        _, name, operands, attrs = o
        ops = [val(x) for x in operands]
        props = []
        for nm, a in attrs:
            if a is None:
                continue  # unconstrained attribute: the op's default
            if isinstance(a, IntegerAttr):
                v = a.value.data
                if T != "i32":
                    w = int(T[1:])
                    if not -(1 << (w - 1)) <= v < (1 << (w - 1)):
                        raise _Unsupported("constant-does-not-fit")
                props.append(f"{nm} = {v} : {T}")
            else:
                props.append(f"{nm} = {a}")
        nm = f"%v{len(names)}"
        names[id(o)] = nm
        p = f" <{{{', '.join(props)}}}>" if props else ""
        lines.append(f"  {nm} = \"{name}\"({', '.join(ops)}){p} : ({', '.join(T for _ in ops)}) -> {T}")
        return nm

    r = val(t)
    args = ", ".join(f"%x{i}: {T}" for i in range(nvars))
    return f"func.func @{fname}({args}) -> {T} {{\n" + "\n".join(lines) + f"\n  func.return {r} : {T}\n}}\n"


def classify_rule(item):
    """-> dict(label, status, text, where, detail, root, lhs, nvars).  status 'sound' only if lhs ⊑ rhs on the whole
    dense i32 grid and on every i4 input."""
    text, where = item
    from mc import corpus, refsem as R

    out = {"text": text, "where": where, "label": None, "status": None, "detail": "", "root": None, "lhs": None}
    m = corpus.parse(text, verify=False)
    pat = next((op for op in m.walk() if op.name == "pdl.pattern"), None) if m is not None else None
    if pat is None:
        out["status"] = "unsupported:does-not-parse"
        return out
    try:
        nvars, lhs, rhs, fixed = translate(pat)
    except _Unsupported as e:
        out["status"] = f"unsupported:{e}"
        return out
    out["label"] = f"{render(lhs)}=>{render(rhs)}"
    out["root"] = lhs[1][1]
    out["lhs"] = lhs
    if fixed not in (None, "i32"):
        out["status"] = "not-i32"
        return out
    checked = 0
    for T, grid in (("i32", DENSE), ("i4", tuple(range(-8, 8)))):
        if T != "i32" and fixed is not None:
            continue
        try:
            src = emit_func("lhs", nvars, lhs, T) + emit_func("rhs", nvars, rhs, T)
        except _Unsupported as e:
            if T == "i32":
                out["status"] = f"unsupported:{e}"
                return out
            continue
        mod = corpus.parse(src, verify=True)
        if mod is None:
            out["status"] = "ill-formed"
            out["detail"] = src
            return out
        for xs in itertools.product(grid, repeat=nvars):
            try:
                a, _ = R.run_func(mod, list(xs), "lhs")
                if a is R.POISON:
                    continue
                b, _ = R.run_func(mod, list(xs), "rhs")
            except R.RefsemError as e:
                out["status"] = f"unsupported:refsem:{type(e).__name__}"
                return out
            checked += 1
            if b is R.POISON or not R.results_equal(a, b):
                out["status"] = "unsound"
                out["detail"] = f"{T} {list(xs)}: lhs={a} rhs={'undefined' if b is R.POISON else b}"
                return out
    out["status"] = "sound"
    out["detail"] = f"{checked} defined inputs"
    return out


def lhs_constants(t, acc=None) -> list[str]:
    """printed forms of the attribute values the lhs of a rule pins down"""
    acc = [] if acc is None else acc
    if t[0] == "res":
        _, _, operands, attrs = t[1]
        for _, a in attrs:
            if a is not None:
                acc.append(str(a))
        for o in operands:
            lhs_constants(o, acc)
    return acc


def native_matcher(texts: list[str]):
    """rule texts -> eqsat pdl_interp module (or 'failure:<Exc>') through the xDSL-native conversion passes"""
    from mc import corpus
    from xdsl.parser import Parser
    from xdsl.transforms.convert_pdl_interp_to_eqsat_pdl_interp import ConvertPDLInterpToEqsatPDLInterpPass
    from xdsl.transforms.convert_pdl_to_pdl_interp.conversion import ConvertPDLToPDLInterpPass

    ctx = corpus.fresh_ctx()
    try:
        m = Parser(ctx, "\n".join(texts)).parse_module()
        ConvertPDLToPDLInterpPass().apply(ctx, m)
        ConvertPDLInterpToEqsatPDLInterpPass().apply(ctx, m)
        m.verify()
        return m
    except Exception as e:  # noqa: BLE001
        return f"failure:{type(e).__name__}"


def matcher_checks(module) -> str:
    """text of the attribute-value checks of the @matcher function"""
    out = []
    for op in module.walk():
        if op.name in ("pdl_interp.check_attribute", "pdl_interp.switch_attribute"):
            out.append(str(op))
    return "\n".join(out)


def shipped_matchers():
    """eqsat pdl_interp matchers shipped in the corpus together with their PDL source (as a comment):
    -> list of (where, module without the payload functions, [pattern texts])"""
    from mc import corpus

    out = []
    for rel, i, text in corpus.chunks("tests"):
        if "eqsat_pdl_interp.record_match" not in text or "// pdl.pattern" not in text:
            continue
        m = corpus.parse(text, verify=False)
        if m is None:
            continue
        for op in list(m.body.block.ops):
            if op.name == "func.func":
                op.detach()
        try:
            m.verify()
        except Exception:  # noqa: BLE001
            continue
        commented = "\n".join(ln.strip()[3:] if ln.strip().startswith("// ") else "" for ln in text.split("\n")
                              if ln.strip().startswith("//") and not ln.strip().startswith("// CHECK")
                              and not ln.strip().startswith("// RUN"))
        pm = corpus.parse(commented, verify=False)
        if pm is None:
            continue
        pats = [str(op) for op in pm.walk() if op.name == "pdl.pattern"]
        if pats:
            out.append((f"{rel}#{i}", m, pats))
    return out


# ======================================================================================
# an independent syntactic matcher on program specs (only used to decide which runs are worth making)
# ======================================================================================
def value_numbers(spec) -> list:
    k, cs, ops, _ = spec
    vn: list = [("a", i) for i in range(k)] + [("c", c) for c in cs]
    for o, *xs in ops:
        vn.append((op_name(o), o, *[vn[x] for x in xs]))
    return vn


def matches_somewhere(spec, lhs) -> bool:
    k, cs, ops, _ = spec
    vn = value_numbers(spec)

    def m(t, idx, bind) -> bool:
        if t[0] == "var":
            if t[1] in bind:
                return bind[t[1]] == vn[idx]
            bind[t[1]] = vn[idx]
            return True
        _, name, operands, attrs = t[1]
        if idx < k:
            return False
        if idx < k + len(cs):
            if name != "arith.constant":
                return False
            for nm, a in attrs:
                if nm == "value" and a is not None and getattr(getattr(a, "value", None), "data", None) != cs[idx - k]:
                    return False
            return True
        o, *xs = ops[idx - k - len(cs)]
        if op_name(o) != name or len(operands) != len(xs) or o >= len(BINS):
            return False
        return all(m(t2, x, bind) for t2, x in zip(operands, xs))

    return any(m(lhs, idx, {}) for idx in range(k, len(vn)))


# ======================================================================================
# the pipelines
# ======================================================================================
class _CaseTimeout(BaseException):   # not an Exception: no handler of the code under test may swallow it
    pass


def _alarm(_sig, _frm):
    raise _CaseTimeout()


def _is_diagnostic(e: BaseException) -> bool:
    """xDSL's own exception classes (DiagnosticException, VerifyException, InterpretationError, PassFailedException,
    ...) are reported failures; Python's built-in ones (AttributeError, KeyError, IndexError, TypeError,
    AssertionError, ValueError 'SSA value still has uses', RecursionError ...) are internal errors."""
    return any(c.__module__.startswith("xdsl.utils.exceptions") for c in type(e).__mro__)


def _site(e: BaseException) -> str:
    tb = e.__traceback__
    name = "?"
    while tb is not None:
        if "xdsl" in tb.tb_frame.f_code.co_filename:
            name = tb.tb_frame.f_code.co_name
        tb = tb.tb_next
    return name


G: dict = {}     # built by prepare() in the parent, inherited by the forked workers


def _ctx():
    if "ctx" not in G:
        from mc import corpus
        G["ctx"] = corpus.fresh_ctx()
    return G["ctx"]


def pipeline_name(pipe) -> str:
    if pipe[0] == "identity":
        return "identity-pipeline"
    if pipe[0] == "no-costs":
        return "identity-pipeline-no-costs"
    return {"native": "apply-eqsat-pdl-interp", "native-reversed": "apply-eqsat-pdl-interp",
            "shipped": "apply-eqsat-pdl-interp(shipped-matcher)"}[pipe[1]]


def pipe_cost(pipe) -> str:
    if pipe[0] == "identity":
        return pipe[1] if len(pipe) > 1 else "default=1"
    if pipe[0] == "rules":
        return pipe[4] if len(pipe) > 4 else "default=1"
    return "none"


def cost_pass(cost: str):
    from xdsl.transforms.eqsat_add_costs import EqsatAddCostsPass

    if cost == "default=1":
        return EqsatAddCostsPass(default=1)
    return EqsatAddCostsPass(cost_file=cost_file(cost[len("file:"):]), default=1)


def run_pipeline(st: Stats, specs, pipe, src) -> str:
    """pipe = ("identity", cost) | ("no-costs",) | ("rules", matcher variant, rule set label, cap, cost) -> outcome"""
    from xdsl.transforms.apply_eqsat_pdl_interp import apply_eqsat_pdl_interp
    from xdsl.transforms.eqsat_create_eclasses import EqsatCreateEclassesPass
    from xdsl.transforms.eqsat_extract import EqsatExtractPass

    ctx = _ctx()
    kind = pipe[0]
    pname = pipeline_name(pipe)
    label = cap = matcher = None
    if kind == "rules":
        variant, label, cap = pipe[1:4]
        matcher = G["sets"][label]["matchers"][variant]
    wit = {"program": text_of_case(specs),
           "specs": [[sp[0], list(sp[1]), [list(b) for b in sp[2]], list(sp[3])] for sp in specs],
           "pipeline": list(pipe)}
    if label is not None:
        wit["rules"] = label
    module = build(specs)
    fired = [False]

    def egraph_size():
        n = c = 0
        for op in module.walk():
            n += 1
            if op.name.startswith("equivalence."):
                c += len(op.operands)
        return n, c

    def apply_rules():
        before = egraph_size()
        apply_eqsat_pdl_interp(module, ctx, matcher, cap)
        fired[0] = egraph_size() != before

    stages = [("eqsat-create-eclasses", lambda: EqsatCreateEclassesPass().apply(ctx, module))]
    if kind == "rules":
        stages.append(("apply-eqsat-pdl-interp", apply_rules))
    if kind != "no-costs":
        stages.append(("eqsat-add-costs", lambda: cost_pass(pipe_cost(pipe)).apply(ctx, module)))
    stages.append(("eqsat-extract", lambda: EqsatExtractPass().apply(ctx, module)))

    for si, (sname, fn) in enumerate(stages):
        st.transitions += 1
        try:
            fn()
        except Exception as e:  # noqa: BLE001
            if _is_diagnostic(e):
                # The tool reports that it cannot do this.  Every case of the space is within the documented support
                # (pure single-result arith ops in one block, sound rules, each value in one e-class): "yields a
                # program" fails when the pipeline aborts, with or without rules.
                if kind != "rules":
                    _identity_failure(st, pname, sname, f"raises {type(e).__name__}: {str(e)[:120]}", wit)
                else:
                    st.violate(f"C28|{sname}|aborts-on-sound-rules|{type(e).__name__}@{_site(e)}",
                               f"{pname}: {sname} aborts with {type(e).__name__}: {str(e)[:140]}",
                               {**wit, "error": str(e)[:300]})
                return f"reported-failure:{sname}:{type(e).__name__}"
            st.violate(f"C28|{sname}|raises-internal|{type(e).__name__}@{_site(e)}",
                       f"{sname} raises {type(e).__name__} ({str(e)[:120]}) in {pname}", {**wit, "error": str(e)[:300]})
            return f"raises-internal:{sname}:{type(e).__name__}"
        try:
            module.verify()
        except Exception as e:  # noqa: BLE001
            if si != len(stages) - 1:
                # no diagnostic about the input: the pass itself produced invalid IR (xdsl-opt would stop here)
                st.violate(f"C28|{sname}|output-does-not-verify",
                           f"{pname}: the module {sname} leaves does not verify: {str(e)[:160]}",
                           {**wit, "module": str(module)[:1500]})
                return f"output-does-not-verify:{sname}"
            st.violate(f"C28|{pname}|does-not-verify", f"the extracted program does not verify: {str(e)[:160]}",
                       {**wit, "extracted": str(module)[:1500]})
            return "does-not-verify"

    st.executions += 1
    tag = " rule-fired" if fired[0] else ""
    fns = [the_func(module, FUNC_NAMES[i]) for i in range(len(specs))]
    if any(f is None for f in fns):
        st.violate(f"C28|{pname}|does-not-verify", "a function disappeared", wit)
        return "function-lost"
    extracted = "\n".join(str(f) for f in fns)
    wit["extracted"] = extracted[:1500]
    ckey = ("rules" if kind == "rules" else kind, extracted)
    cached = src["cache"].get(ckey)
    if cached is None:
        # (an extracted text already judged for this program and pipeline kind is not judged again)
        verdicts: list[str] = []
        detail: dict = {}
        for i, f in enumerate(fns):
            v, d = judge(st, f, module, kind, src["functions"][i], FUNC_NAMES[i])
            verdicts += [x for x in v if x not in verdicts and not (x.startswith("ok") and verdicts)]
            if d and not detail:
                detail = {**d, "function": FUNC_NAMES[i]}
        bad = [v for v in verdicts if not v.startswith("ok")]
        cached = src["cache"][ckey] = (bad or verdicts[:1], detail)
    verdicts, detail = cached
    for v in verdicts:
        if not v.startswith("ok"):
            _flag(st, v, pipe, specs, {**wit, **detail})
    return "+".join(verdicts) + tag


def _identity_failure(st: Stats, pname: str, sname: str, how: str, wit) -> None:
    # without rules the pipeline must give the program back: every program of the space is within the documented
    # support (single-result ops in one block), so a reported failure there is a failure of the property
    st.violate(f"C28|{pname}|{sname}|fails-on-valid-program", f"{pname}: {sname} {how}", wit)


def stable_toposort(fn) -> bool:
    """reorders the ops of the body so that definitions precede uses (ties: original order); False if cyclic"""
    block = fn.regions[0].blocks[0]
    ops = list(block.ops)
    pos = {id(op): i for i, op in enumerate(ops)}
    placed: set[int] = set()
    order = []
    while len(order) < len(ops):
        for op in ops:
            if id(op) in placed:
                continue
            if all(id(o.owner) not in pos or id(o.owner) in placed for o in op.operands):
                placed.add(id(op))
                order.append(op)
                break
        else:
            return False
    for op in ops:
        op.detach()
    for op in order:
        block.add_op(op)
    return True


def judge(st: Stats, fn, module, kind: str, src, fname: str = "f") -> tuple[list[str], dict]:
    from mc import refsem as R

    left = eqsat_ops(fn)
    transparent = False
    verdicts: list[str] = []
    if left:
        if kind == "no-costs" and left == ["equivalence.class"] and all(
                len(op.operands) == 1 for op in fn.walk() if op.name == "equivalence.class"):
            transparent = True   # documented: classes without min_cost_index are kept; with one operand = that value
        else:
            return ["leaves-eqsat-ops"], {"left": left}
    if use_before_def(fn) is not None:
        if not stable_toposort(fn):     # a value that depends on itself: the program cannot be executed at all
            return ["cyclic-use"], {}
        verdicts.append("use-before-def")   # results are judged on the reordered program MLIR would have accepted
    kw = {}
    if transparent:
        kw["unknown_op"] = lambda mach, op, vals: list(vals[:1]) if op.name == "equivalence.class" else None
    for xs, ref in src["results"]:
        st.evaluations += 1
        try:
            got, _ = R.run_func(module, list(xs), fname, **kw)
        except R.RefsemError as e:
            got = f"refsem:{type(e).__name__}"
        if got is R.POISON or isinstance(got, str) or not R.results_equal(got, ref):
            return verdicts + ["wrong-result"], {
                "input": list(xs), "expected": [list(r) for r in ref],
                "got": "undefined" if got is R.POISON else (got if isinstance(got, str) else [list(r) for r in got])}
    if kind != "rules":
        form, leftover = tree_form(fn, transparent_classes=transparent)
        if leftover:
            st.bump("identity_leftover_eqsat_cost_attr")
        if form != src["form"]:
            return verdicts + ["not-equivalent-to-source"], {}
    return verdicts or ["ok(classes kept, documented)" if transparent else "ok"], {}


def _flag(st: Stats, verdict: str, pipe, spec, wit) -> None:
    pname = pipeline_name(pipe)
    if pipe[0] == "rules":
        label = pipe[2]
        if G["sets"][label]["defective"].get(pipe[1]):
            # the matcher itself lost an attribute-value check of the rule: one root cause, one signature
            pname, label = "convert-pdl-to-pdl-interp", "matcher-lacks-attribute-value-check"
    else:
        label = shape_class(spec)
    if verdict == "leaves-eqsat-ops":
        st.violate(f"C28|{pname}|leaves-eqsat-ops", f"eqsat ops remain after eqsat-extract: {wit.get('left')}", wit)
    elif verdict == "use-before-def":
        # one root cause whatever the rules: extraction leaves the chosen op where it stood
        st.violate("C28|eqsat-extract|use-before-def",
                   f"{pipeline_name(pipe)}: the extracted program uses a value before its definition "
                   "(invalid in a func body; xDSL's verifier does not check dominance)", wit)
    elif verdict == "cyclic-use":
        st.violate("C28|eqsat-extract|cyclic-use",
                   f"{pipeline_name(pipe)}, costs {pipe_cost(pipe)}: a value of the extracted program depends on itself "
                   "(a self-referential e-node was selected): the program cannot be executed", wit)
    elif verdict == "wrong-result":
        st.violate(f"C28|{pname}|{label}|wrong-result",
                   f"extracted program returns {wit.get('got')} instead of {wit.get('expected')} on {wit.get('input')}", wit)
    elif verdict == "not-equivalent-to-source":
        st.violate(f"C28|identity-pipeline|{shape_class(spec)}|not-equivalent-to-source",
                   f"{pname}: without rules the extracted program is not the source up to op order", wit)


def source_info(specs):
    from mc import refsem as R

    module = build(specs)
    fns = []
    for i, spec in enumerate(specs):
        results = []
        for xs in itertools.product(BOUNDARY, repeat=spec[0]):
            ref, _ = R.run_func(module, list(xs), FUNC_NAMES[i])
            if ref is R.POISON:
                continue
            results.append((xs, ref))
        form, _ = tree_form(the_func(module, FUNC_NAMES[i]))
        fns.append({"results": results, "form": form, "ninputs": len(BOUNDARY) ** spec[0]})
    return {"functions": fns, "cache": {}}


def pipelines_for(case):
    """family "main": identity, no-costs; PROBE: every single rule whose root op name occurs in the program, cap 1 (a
    matcher that matches where the rule does not apply shows here); FULL: every rule set one of whose rules matches the
    source syntactically (independent matcher above), every matcher variant, caps 1..3 -- all with costs default=1.
    family "costs": identity and the FULL sets at the largest cap under every cost file.
    family "pairs" (two functions): identity and the FULL sets (a rule matching in either function) at the largest cap."""
    family, specs = case
    names = {op_name(o) for sp in specs for o, *_ in sp[2]}
    if any(sp[1] for sp in specs):
        names.add("arith.constant")
    hit = {lb for lb, r in G["rules"].items() if r["root"] in names and any(matches_somewhere(sp, r["lhs"]) for sp in specs)}
    if family == "main":
        costs = ("default=1",)
        caps = G["caps"]
        yield ("identity", "default=1")
        yield ("no-costs",)
    elif family == "costs":
        costs = tuple(f"file:{c}" for c in G["costs"])
        caps = G["caps"][-1:]
        for c in costs:
            yield ("identity", c)
    else:
        costs = ("default=1",)
        caps = G["caps"][-1:]
        yield ("identity", "default=1")
    for label, s in G["sets"].items():
        full = any(r in hit for r in s["rules"])
        probe = family == "main" and len(s["rules"]) == 1 and G["rules"][s["rules"][0]]["root"] in names
        if not (full or probe):
            continue
        for variant, m in s["matchers"].items():
            if isinstance(m, str):
                continue
            if variant == "native-reversed" and not (family == "costs" or (G.get("reversed_in_main") and full)):
                continue
            for cap in (caps if full else caps[:1]):
                if variant == "native-reversed" and cap != caps[-1]:
                    continue
                for c in costs:
                    yield ("rules", variant, label, cap, c)


def check_program(st: Stats, case, only=None) -> None:
    family, specs = case
    src = source_info(specs)
    st.states += 1
    if any(not f["results"] for f in src["functions"]):
        st.outcomes["source undefined on every boundary input"] += 1
        return
    st.bump("source_inputs_excluded_as_undefined", sum(f["ninputs"] - len(f["results"]) for f in src["functions"]))
    for pipe in ([only] if only is not None else pipelines_for(case)):
        signal.signal(signal.SIGPROF, _alarm)    # CPU time of this process, so machine load cannot fake a hang
        signal.setitimer(signal.ITIMER_PROF, CASE_TIMEOUT_S)
        try:
            out = run_pipeline(st, specs, pipe, src)
        except _CaseTimeout:
            out = "timeout"
            st.cap(f"a pipeline run exceeded {CASE_TIMEOUT_S}s of CPU time")
        finally:
            signal.setitimer(signal.ITIMER_PROF, 0)
        if "rule-fired" in out:
            st.nontrivial += 1
        kindl = pipe[0] if pipe[0] != "rules" else f"rules/{pipe[1]}/cap{pipe[3]}"
        if pipe_cost(pipe).startswith("file:"):
            kindl += "/cost-file"
        st.outcomes[f"{family}: {kindl}: {out}"] += 1
        if pipe[0] == "rules":
            d = st.extra.setdefault("per_rule_set", {})
            for what in ("runs", "fired")[:2 if "rule-fired" in out else 1]:
                key = f"{pipe[2]} [{pipe[1]}] {what}"
                d[key] = d.get(key, 0) + 1


def _shard(task) -> Stats:
    lo, hi, seed = task
    st = Stats()
    progs = G["programs"]
    for idx in range(lo, hi):
        case = progs[idx]
        check_program(st, case)
        if (idx + seed) % 977 == 0:
            st.sample({"family": case[0], "program": text_of_case(case[1]),
                       "pipelines": ["/".join(map(str, p)) for p in pipelines_for(case)][:12]})
    return st


# ======================================================================================
def prepare(st: Stats | None = None) -> None:
    """fills G (sound rules, rule sets, matchers) in the parent; forked workers inherit it"""
    if "sets" in G:
        return
    infos = [classify_rule(p) for p in corpus_patterns()]
    rules: dict[str, dict] = {}
    for r in infos:
        if st is not None:
            st.bump(f"corpus_rules[{r['status'].split(':')[0]}]")
            st.extra.setdefault("rules", []).append(
                {"label": r["label"], "status": r["status"], "where": r["where"], "detail": r["detail"][:200]})
        if r["status"] == "sound" and r["label"] not in rules:
            rules[r["label"]] = r
    labels = sorted(rules)
    sets: dict[str, dict] = {}
    for combo in [(lb,) for lb in labels] + list(itertools.combinations(labels, 2)):
        sets[" + ".join(combo)] = {"rules": list(combo), "matchers": {"native": native_matcher([rules[x]["text"] for x in combo])},
                                   "defective": {}}
    for where, module, pats in shipped_matchers():
        rs = [classify_rule((t, where)) for t in pats]
        if not all(r["status"] == "sound" for r in rs):
            if st is not None:
                st.bump("shipped_matchers_skipped(unsound or unsupported rule)")
            continue
        for r in rs:
            rules.setdefault(r["label"], r)
        combo = sorted({r["label"] for r in rs})
        s = sets.setdefault(" + ".join(combo), {"rules": combo, "matchers": {}, "defective": {}})
        s["matchers"].setdefault("shipped", module)
        s.setdefault("shipped_from", where)
        if st is not None:
            st.bump("shipped_matchers_used")
    for label, s in sets.items():
        for variant, m in s["matchers"].items():
            if isinstance(m, str):
                if st is not None:
                    st.bump(f"matcher_conversion_{m}")
                continue
            checks = matcher_checks(m)
            missing = [c for lb in s["rules"] for c in lhs_constants(rules[lb]["lhs"]) if f"is {c} " not in checks
                       and c not in checks]
            s["defective"][variant] = bool(missing)
            if missing and st is not None:
                st.bump(f"matchers_without_the_rule's_attribute_value_check[{variant}]")
    # pattern order is a dimension of its own for pairs (which rule is tried / applied first)
    for label, s in sets.items():
        if len(s["rules"]) == 2 and "native" in s["matchers"]:
            s["matchers"]["native-reversed"] = native_matcher([rules[x]["text"] for x in reversed(s["rules"])])
            s["defective"]["native-reversed"] = s["defective"].get("native", False)
    G["rules"] = rules
    G["sets"] = sets
    G["caps"] = (1, 2, 3)
    G["costs"] = cost_configs(quick=True)


FREE_OPS = ("arith.addi", "arith.muli", "arith.subi")


def cost_configs(quick: bool) -> dict[str, dict[str, int]]:
    """cost files (always used together with default=1): the one shipped in the corpus, and every cost model over
    {0, 1} for arith.constant / addi / muli / subi (quick: those in which constants are free)"""
    import json
    import os
    from mc import corpus

    out: dict[str, dict[str, int]] = {}
    path = os.path.join(corpus.CORPUS_ROOT, "tests/filecheck/transforms/eqsat-add-costs/costs.json")
    if os.path.exists(path):
        with open(path) as f:
            out["corpus:costs.json"] = json.load(f)
    for cfree in ((True,) if quick else (True, False)):
        for bits in itertools.product((0, 1), repeat=len(FREE_OPS)):
            d = {"arith.constant": 0 if cfree else 1}
            d.update({nm: b for nm, b in zip(FREE_OPS, bits)})
            if all(v == 1 for v in d.values()):
                continue    # = default=1
            out["free:" + "+".join(k.split(".")[1] for k, v in d.items() if v == 0)] = d
    return out


def cost_file(name: str) -> str:
    import json
    import os
    import tempfile

    if "costdir" not in G:
        G["costdir"] = tempfile.mkdtemp(prefix="verif-c28-")
    path = os.path.join(G["costdir"], name.replace(":", "_").replace("+", "_") + ".json")
    if not os.path.exists(path):
        with open(path, "w") as f:
            json.dump(G["costs"][name], f)
    return path


def cleanup() -> None:
    import shutil

    if "costdir" in G:
        shutil.rmtree(G.pop("costdir"), ignore_errors=True)


def twin_programs(quick: bool):
    """f(a, b): t = a+0 | a*1 (an identity a rule can fire on), two arith.cmpi that differ ONLY in the predicate
    property on the same operands (t, b) | (b, t) [thorough: also (t, a), (t, t)], observed directly (two i1 results)
    or through two arith.select; every unordered (thorough: ordered) pair of distinct predicates."""
    nb = len(BINS)
    arrangements = ((3, 1), (1, 3)) if quick else ((3, 1), (1, 3), (3, 0), (3, 3))
    pairs = itertools.combinations(range(10), 2) if quick else itertools.permutations(range(10), 2)
    for p1, p2 in pairs:
        for mk, c in ((0, 0), (1, 1)):
            for x, y in arrangements:
                base = ((mk, 0, 2), (nb + p1, x, y), (nb + p2, x, y))
                yield (2, (c,), base, (4, 5))
                yield (2, (c,), base + ((SELECT, 4, 0, 1), (SELECT, 5, 0, 1)), (6, 7))




def chain_programs(quick: bool):
    """f(a, b): a chain of 2..3 identity applications on one value (each level +0 or *1: x+0+0, (x*1)+0,
    ((x+0)*1)+0, ...) feeding one further op with b (either operand order) [thorough: also with a, and the chain value
    returned as a second result]"""
    for L in (2, 3):
        for kinds in itertools.product((0, 1), repeat=L):
            cs = tuple(c for c in (0, 1) if c in kinds)
            cidx = {c: 2 + i for i, c in enumerate(cs)}
            base = 2 + len(cs)
            ops = []
            prev = 0
            for lv, kd in enumerate(kinds):
                ops.append((kd, prev, cidx[kd]))     # kd 0: addi prev, c0 ; kd 1: muli prev, c1
                prev = base + lv
            for last in range(3):
                for other in ((1,) if quick else (1, 0)):
                    for x, y in ((prev, other), (other, prev)):
                        prog = tuple(ops) + ((last, x, y),)
                        yield (2, cs, prog, (base + L,))
                        if not quick:
                            yield (2, cs, prog, (base + L, prev))


def enumerate_programs(quick: bool) -> tuple[list, dict]:
    """-> list of cases (family, (spec, ...))"""
    progs = list(trivial_programs())
    if quick:
        bounds = {"args": [1, 2], "max_ops": 3, "constants": list(CONSTS_Q), "binary_ops": list(BINS[:3]),
                  "three_op_programs": "1 argument: all; 2 arguments: those with a constant",
                  "extra_returned_value_variants": "programs with <= 2 ops"}
        consts, nb = CONSTS_Q, 3
        for k in (1, 2):
            progs += list(programs(k, 2, consts, nb, True))
            progs += [p for p in programs(k, 3, consts, nb, False) if len(p[1]) + len(p[2]) == 3 and (k == 1 or p[1])]
        small = [p for k in (1, 2) for p in programs(k, 2, consts, nb, False)]
    else:
        bounds = {"args": [1, 2], "max_ops": 4, "constants": list(CONSTS_T), "binary_ops": list(BINS),
                  "four_op_programs": "constants {0,1}, ops {addi,muli,subi}: 1 argument with 2 constants, 1 argument "
                                      "with 1 constant and a single returned value, 2 arguments with 2 constants",
                  "extra_returned_value_variants": "programs with <= 2 ops"}
        consts, nb = CONSTS_T, 4
        for k in (1, 2):
            progs += list(programs(k, 2, consts, nb, True))
            progs += [p for p in programs(k, 3, consts, nb, False) if len(p[1]) + len(p[2]) == 3]
            progs += [p for p in programs(k, 4, (0, 1), 3, False) if len(p[1]) + len(p[2]) == 4 and len(p[1]) >= k
                      and (len(p[1]) == 2 or len(p[3]) == 1)]
        small = [p for k in (1, 2) for p in programs(k, 2, consts, nb, False)]
        small += [p for p in programs(1, 3, (0, 1), 3, False) if len(p[1]) + len(p[2]) == 3 and p[1]]
    twins = list(twin_programs(quick))
    chains = list(chain_programs(quick))
    cases = [("main", (p,)) for p in progs + twins + chains]
    cases += [("costs", (p,)) for p in small]
    # two functions in one module: P = every 1-argument program with <= 2 ops, Q = those made of one constant and one
    # binary op (the constant a rule may want to create lives in the OTHER function); both orders
    one = [p for p in programs(1, 2, consts, nb, False)]
    withc = [p for p in one if len(p[1]) == 1 and len(p[2]) == 1]
    seen = set()
    for P in one:
        for Q in withc:
            for pair in ((P, Q), (Q, P)):
                if pair not in seen:
                    seen.add(pair)
                    cases.append(("pairs", pair))
    bounds["families"] = {"main": len(progs), "property-twins (in main)": len(twins),
                          "identity-chains (in main)": len(chains), "costs": len(small),
                          "pairs": len(seen)}
    bounds["cost_files"] = sorted(G.get("costs", {}))
    return cases, bounds


def run(ctx):
    st0 = Stats()
    prepare(st0)
    G["costs"] = cost_configs(ctx.quick)
    G["reversed_in_main"] = not ctx.quick
    for name in G["costs"]:
        cost_file(name)
    cases, bounds = enumerate_programs(ctx.quick)
    G["programs"] = cases
    ctx.merge(st0)
    step = 8
    tasks = [(lo, min(len(cases), lo + step), ctx.seed) for lo in range(0, len(cases), step)]
    try:
        for _, st in pmap(_shard, tasks):
            ctx.merge(st)
    finally:
        cleanup()
    bounds.update({"cases": len(cases), "type": "i32", "boundary_inputs_per_argument": list(BOUNDARY),
                   "sound_rules": sorted(G["rules"]), "rule_sets": len(G["sets"]), "max_iterations": list(G["caps"]),
                   "matchers": sorted({f"{v}" for s in G["sets"].values() for v in s["matchers"]})})
    ctx.bounds = bounds
    ctx.rule = ("family main: every program of the bounded shape (plus the property-twin programs: two arith.cmpi equal up "
                "to the predicate on shared operands behind an identity) x {identity, no-costs, PROBE: every sound corpus "
                "rule whose root op occurs in the program at max_iterations=1, FULL: every rule / pair of rules one of which "
                "matches the source syntactically x matcher (native conversion [thorough: also the reversed pattern order at max_iterations 3], shipped) x "
                "max_iterations 1..3}, costs default=1; family costs: every program with <= 2 ops x {identity, FULL sets, "
                "both pattern orders, max_iterations 3} x every cost file; family pairs: two-function modules (P, Q) x "
                "{identity, FULL sets at max_iterations 3}; each x every boundary input tuple on which the source is defined. "
                "states = cases, transitions = pass applications, executions = pipelines that ran to completion and were "
                "judged; non-trivial = a pipeline run in which a rule fired (the e-graph after apply-eqsat-pdl-interp "
                "differs in size from the one create-eclasses built)")
    ctx.assumptions = [
        "mc/refsem.py implements the MLIR semantics of func/arith (self test: python -m mc.refsem)",
        "a rule is sound if lhs ⊑ rhs (rhs defined and equal wherever lhs is defined) on the dense i32 grid "
        f"{list(DENSE)} per variable and on every i4 input",
        "apply-eqsat-pdl needs mlir-opt (absent): rules are lowered with xDSL's convert-pdl-to-pdl-interp + "
        "convert-pdl-interp-to-eqsat-pdl-interp (optimize_for_eqsat emits ematch ops no pass interprets: not used); "
        "a matcher shipped in the corpus with its PDL source as a comment is used as a second matcher for that rule set",
        "ApplyEqsatPDLInterpPass.apply only parses pdl_interp_file and calls apply_eqsat_pdl_interp, which is driven directly",
        "like xdsl-opt, the module is verified after every pass; a pass that raises (diagnostic or built-in exception) "
        "or leaves a non-verifying module is a violation: every case is within the documented support",
        "if no rule of a set matches the source syntactically the set is not run beyond the single-rule probes "
        "(iteration 1 finds nothing, the loop exits)",
        "cost files are always combined with default=1 (ops the file does not name cost 1); zero costs are legal values",
    ]


def replay(rep) -> bool:
    w = rep["witness"]
    prepare()
    G["costs"] = cost_configs(False)
    raw = w["specs"] if "specs" in w else [w["spec"]]
    specs = tuple((sp[0], tuple(sp[1]), tuple(tuple(b) for b in sp[2]), tuple(sp[3])) for sp in raw)
    pipe = tuple(w["pipeline"])
    st = Stats()
    try:
        check_program(st, ("replay", specs), only=pipe)
    finally:
        cleanup()
    return rep["signature"] not in st.violations
