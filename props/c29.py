"""C29 — symbol lookup returns the operation the nesting rules designate.

Fully exhaustive enumeration of nested symbol-table trees built from real ops:

  tree   ::= builtin.module (root, unnamed or named) holding a body
  body   ::= ordered list of <= K children (K per level, <= 2)
  child  ::= func.func declaration "D" | func.func with body {func.return} "F"
           | func.func with body {test.op({test.termop}); func.return} "G"     (symbols that are NOT tables)
           | builtin.module @name (a symbol that IS a table) holding a body of the next level
           | unnamed builtin.module (a table that is NOT a symbol) holding a body of the next level
  names over {a, b}; visibility in {public (absent), private, nested}: `sym_visibility` property on func.func,
  `sym_visibility` discardable attribute on builtin.module (what SymbolTable.get_symbol_visibility reads).

Duplicate names inside a table are enumerated too (such modules do not verify).  On every tree, every reference
@x, @x::@y, @x::@y::@z over {a, b, c} (SymbolRefAttr; str and StringAttr for flat names) is looked up FROM EVERY
OPERATION with every lookup entry point of xdsl.utils.symbol_table and traits.SymbolTable.lookup_symbol and the
result (object identity) is compared with `ref_chains`, a reference resolver written from the rules of the
property statement.  With duplicate names the rules designate several operations; any of them is accepted.
The cached (SymbolTableCollection / utils SymbolTable) and direct forms must agree on every module that verifies.
"""
from __future__ import annotations

import itertools
import json

from mc.pool import pmap
from mc.stats import Stats

NAMES = ("a", "b")
REF_NAMES = ("a", "b", "c")
VIS3 = (None, "private", "nested")
VIS2 = (None, "private")
FUNC_KINDS = ("D", "F", "G")


# ------------------------------------------------------------------ bounded spaces
def L(K, funcs, fvis=VIS3, mvis=VIS3, anon=True):
    return {"K": K, "funcs": tuple(funcs), "fvis": tuple(fvis), "mvis": tuple(mvis), "anon": anon}


# Every config is enumerated completely; a tree that already belongs to an earlier config of the same tier is
# skipped (so `states` counts distinct trees).  levels[i] describes the bodies of the tables at depth i+1.
QUICK = [
    # depth <= 2, two symbols per table; level-2 functions are definitions with public/private visibility
    {"name": "d2", "roots": (None,), "levels": [L(2, "DF", VIS3, VIS2, anon=False), L(2, "F", VIS2)]},
    # depth <= 3 chains: one child per table above the innermost, two in the innermost
    {"name": "d3-k112", "roots": (None,), "levels": [L(1, "DFG"), L(1, "DF"), L(2, "DF", VIS2)]},
    # depth <= 3, two children in the middle tables
    {"name": "d3-k121", "roots": (None,),
     "levels": [L(1, "F", VIS2, VIS2, anon=False), L(2, "F", VIS3, VIS2, anon=False), L(1, "F", VIS2)]},
    # the root module is itself a named symbol
    {"name": "named-root", "roots": ("a",), "levels": [L(2, "DF", VIS2, VIS2), L(1, "F", VIS2)]},
    # the d2 space again with the second symbol name spelled as the EMPTY string
    {"name": "d2-empty-name", "roots": (None,), "levels": [L(2, "DF", VIS3, VIS2, anon=False), L(2, "F", VIS2)], "spell_b": ""},
]
THOROUGH = QUICK + [
    # the same shapes with the restrictions of the quick tier lifted one at a time
    {"name": "d2-mvis3", "roots": (None,), "levels": [L(2, "DF"), L(2, "F", VIS2)]},
    {"name": "d2-fvis3", "roots": (None,), "levels": [L(2, "DF", VIS3, VIS2), L(2, "F")]},
    {"name": "d2-decl", "roots": (None,), "levels": [L(2, "DF", VIS3, VIS2), L(2, "D", VIS2)]},
    {"name": "d3-k112-full", "roots": (None, "a"), "levels": [L(1, "DFG"), L(1, "DF"), L(2, "DF")]},
    {"name": "d3-k121-full", "roots": (None,), "levels": [L(1, "DF"), L(2, "DF"), L(1, "F", VIS2)]},
    {"name": "d3-k122", "roots": (None,),
     "levels": [L(1, "F", VIS2, VIS2, anon=False), L(2, "F", VIS3, VIS2, anon=False), L(2, "F", VIS2)]},
    {"name": "d3-k211", "roots": (None,), "levels": [L(2, "DF", VIS3, VIS2, anon=False), L(1, "F", VIS3, VIS2), L(1, "F")]},
]

_choice_cache: dict = {}
# spelling used for the harness name "b" when IR and reference attributes are built; the "empty-name" configs re-run a
# config with "b" spelled as the EMPTY STRING (a legal sym_name that is falsy in Python)
_SPELL = {"b": "b"}


def _set_spelling(b: str) -> None:
    global _REFS
    if _SPELL["b"] != b:
        _SPELL["b"] = b
        _REFS = None


def _sp(n):
    return _SPELL.get(n, n) if n is not None else None


def choices(cfg_key, levels, i):
    """all children allowed in a body of level i (deterministic order; structures are shared, never mutated)"""
    k = (cfg_key, i)
    got = _choice_cache.get(k)
    if got is not None:
        return got
    lv = levels[i]
    out = [[kind, n, v, []] for kind in lv["funcs"] for n in NAMES for v in lv["fvis"]]
    if i + 1 < len(levels):
        sub = bodies(cfg_key, levels, i + 1)
        for body in sub:
            for n in NAMES:
                for v in lv["mvis"]:
                    out.append(["M", n, v, body])
            if lv["anon"]:
                out.append(["M", None, None, body])
    _choice_cache[k] = out
    return out


def bodies(cfg_key, levels, i):
    ch = choices(cfg_key, levels, i)
    out = [[]]
    out.extend([c] for c in ch)
    if levels[i]["K"] >= 2:
        out.extend([c1, c2] for c1 in ch for c2 in ch)
    return out


def fits(body, levels, i) -> bool:
    lv = levels[i]
    if len(body) > lv["K"]:
        return False
    for kind, n, v, sub in body:
        if kind == "M":
            if i + 1 >= len(levels):
                return False
            if n is None:
                if not lv["anon"]:
                    return False
            elif v not in lv["mvis"]:
                return False
            if not fits(sub, levels, i + 1):
                return False
        elif kind not in lv["funcs"] or v not in lv["fvis"]:
            return False
    return True


def in_cfg(root_name, body, cfg) -> bool:
    return root_name in cfg["roots"] and fits(body, cfg["levels"], 0)


# ------------------------------------------------------------------ reference model
class Node:
    __slots__ = ("kind", "name", "vis", "children", "op", "path", "table", "tidx")

    def __init__(self, kind, name, vis, path):
        self.kind, self.name, self.vis, self.path = kind, name, vis, path
        self.children: list[Node] = []
        self.op = None
        self.table = None
        self.tidx = -1


def _follow(cur: Node, rest, chain, honour_private=True):
    if not rest:
        return [chain]
    if cur.kind != "M":
        return ["non-table-step"]
    cands = [c for c in cur.children if c.name == rest[0]]
    if not cands:
        return ["absent"]
    out = []
    for c in cands:
        if c.vis == "private" and honour_private:
            out.append("private-reached")
        else:
            out.extend(_follow(c, rest[1:], chain + (c,), honour_private))
    return out


def ref_chains(table: Node, names, honour_private=True):
    """Reference resolver.  Everything the rules designate for `names` looked up in symbol table `table`:
    a list whose elements are chains (tuples of Nodes root..leaf) or a refusal reason.  The root name is
    searched among the direct children of the table only; every further step needs the current symbol to be a
    table and refuses a private symbol.  One element when names are unique.
    (honour_private=False is only used to CLASSIFY a mismatch that was already established.)"""
    cands = [c for c in table.children if c.name == names[0]]
    if not cands:
        return ["absent"]
    out = []
    for c in cands:
        out.extend(_follow(c, names[1:], (c,), honour_private))
    return out


# ------------------------------------------------------------------ real IR
def build(root_name, body):
    """-> (root op, nodes in pre-order).  Non-symbol ops inside function bodies are nodes of kind 'x'."""
    from xdsl.dialects.builtin import ModuleOp, StringAttr
    from xdsl.dialects.func import FuncOp, ReturnOp
    from xdsl.dialects.test import TestOp, TestTermOp
    from xdsl.ir import Block, Region

    nodes: list[Node] = []

    def mk(kind, name, vis, sub, path, table):
        nd = Node(kind, name, vis, path)
        nodes.append(nd)
        if kind == "M":
            nd.table = nd
            kids = []
            for j, (k2, n2, v2, s2) in enumerate(sub):
                kids.append(mk(k2, n2, v2, s2, path + (j,), nd))
            nd.children = kids
            attrs = {"sym_visibility": StringAttr(vis)} if vis is not None else None
            nd.op = ModuleOp([k.op for k in kids], attrs, StringAttr(_sp(name)) if name is not None else None)
            return nd
        nd.table = table
        extra = []
        if kind == "D":
            region = Region()
        elif kind == "F":
            extra = [ReturnOp()]
            region = Region(Block(extra))
        else:
            inner = TestTermOp()
            outer = TestOp(regions=[Region(Block([inner]))])
            ret = ReturnOp()
            extra = [outer, inner, ret]
            region = Region(Block([outer, ret]))
        nd.op = FuncOp(_sp(name), ((), ()), region, vis)
        for j, o in enumerate(extra):
            x = Node("x", None, None, path + (f"x{j}",))
            x.op = o
            x.table = table
            nodes.append(x)
        return nd

    root = mk("M", root_name, None, body, (), None)
    return root.op, nodes


def _refs():
    from xdsl.dialects.builtin import StringAttr, SymbolRefAttr

    out = []
    for d in (1, 2, 3):
        for names in itertools.product(REF_NAMES, repeat=d):
            out.append((names, "SymbolRefAttr", SymbolRefAttr(_sp(names[0]), [_sp(x) for x in names[1:]])))
    for n in REF_NAMES:
        out.append(((n,), "str", _sp(n)))
        out.append(((n,), "StringAttr", StringAttr(_sp(n))))
    return out


_REFS = None


def refs():
    global _REFS
    if _REFS is None:
        _REFS = _refs()
    return _REFS


def show_ref(names):
    return "::".join("@" + n for n in names)


def show(nd: Node | None):
    if nd is None:
        return None
    if nd.kind == "x":
        return f"{nd.op.name} at /{'/'.join(map(str, nd.path))}"
    nm = f" @{nd.name}" if nd.name is not None else ""
    v = f" {nd.vis}" if nd.vis else ""
    return f"{nd.op.name}{v}{nm} at /{'/'.join(map(str, nd.path))}"


class Exp:
    __slots__ = ("allowed", "chains", "reasons", "cls", "table", "names")


def expectations(tables, RF):
    """per table, per reference: the designated operations"""
    out = []
    for t in tables:
        row = []
        for names, _form, _obj in RF:
            res = ref_chains(t, names)
            e = Exp()
            e.table, e.names = t, names
            chains = [r for r in res if not isinstance(r, str)]
            e.reasons = sorted({r for r in res if isinstance(r, str)})
            e.chains = chains
            allowed = []
            for c in chains:
                if not any(c[-1].op is a for a in allowed):
                    allowed.append(c[-1].op)
            if e.reasons:
                allowed.append(None)
            e.allowed = tuple(allowed)
            if len(res) > 1:
                e.cls = "ambiguous"
            elif chains:
                e.cls = "found"
            else:
                e.cls = res[0]
            row.append(e)
        out.append(row)
    return out


def _failure_kind(got, e: Exp) -> str:
    """names the rule that was broken (only called once a mismatch with the reference is established)"""
    if got is None:
        return "missed"
    relaxed = ref_chains(e.table, e.names, honour_private=False)
    if any(not isinstance(c, str) and c[-1].op is got for c in relaxed):
        return "private-reached"  # designated only if the private rule is dropped
    for r in ("non-table-step", "private-reached"):
        if r in e.reasons:
            return r
    return "wrong-op" if e.chains else "spurious"


def check_tree(st: Stats, root_name, body, cfg_name="?") -> None:
    from xdsl.traits import SymbolTable as TraitST
    from xdsl.utils.symbol_table import SymbolTable as UST
    from xdsl.utils.symbol_table import SymbolTableCollection

    RF = refs()
    root, nodes = build(root_name, body)
    by_id = {id(n.op): n for n in nodes}
    tables = [n for n in nodes if n.kind == "M"]
    for i, t in enumerate(tables):
        t.tidx = i
    exp = expectations(tables, RF)
    try:
        root.verify()
        verified = True
    except Exception:  # noqa: BLE001
        verified = False
    unique = all(len({c.name for c in t.children if c.name is not None}) == len([c for c in t.children if c.name is not None])
                 for t in tables)
    st.bump("verified_trees" if verified else "unverified_trees")
    if verified and not unique:
        st.bump("verified_with_duplicate_names")
    coll = SymbolTableCollection()
    tree_json = None

    def wit(api, nd, names, form, got, e, extra=None):
        nonlocal tree_json
        if tree_json is None:
            tree_json = json.loads(json.dumps([root_name, body]))
        g = got
        if isinstance(got, list):
            g = [show(by_id.get(id(x))) if x is not None else None for x in got]
        elif got is not None and not isinstance(got, str):
            g = show(by_id.get(id(got))) or repr(got)
        w = {"cfg": cfg_name, "tree": tree_json, "ir": str(root), "verified": verified, "api": api,
             "from": show(nd), "ref": show_ref(names), "form": form, "got": g,
             "designated": [show(by_id.get(id(a))) if a is not None else None for a in e.allowed],
             "refusal": e.reasons}
        if extra:
            w.update(extra)
        return w

    def again(sig) -> bool:
        """a signature that already has its witness only gets its counter bumped (messages/witnesses are costly)"""
        v = st.violations.get(sig)
        if v is None:
            return False
        v["count"] += 1
        return True

    def compare(api, nd, names, form, got, e):
        a = e.allowed
        if got is a[0]:
            return
        for x in a:
            if got is x:
                return
        depth = "flat" if len(names) == 1 else "nested"
        sig = f"C29|{api}|{depth}|{_failure_kind(got, e)}"
        if again(sig):
            return
        st.violate(sig,
                   f"{api}({show(nd)}, {show_ref(names)}) returned {show(by_id.get(id(got))) if got is not None else None}; "
                   f"the nesting rules designate {[show(by_id.get(id(x))) if x is not None else None for x in a]}"
                   + (f" ({', '.join(e.reasons)})" if e.reasons else ""),
                   wit(api, nd, names, form, got, e))

    def raised(api, nd, names, form, exc, e):
        depth = "flat" if len(names) == 1 else "nested"
        sig = f"C29|{api}|{depth}|raises-{type(exc).__name__}"
        if again(sig):
            return
        st.violate(sig,
                   f"{api}({show(nd)}, {show_ref(names)}) raised {type(exc).__name__}: {exc}",
                   wit(api, nd, names, form, f"{type(exc).__name__}: {exc}", e))

    direct_from = UST.lookup_nearest_symbol_from
    cached_from = coll.lookup_nearest_symbol_from
    trait_from = TraitST.lookup_symbol
    nearest = UST.get_nearest_symbol_table
    calls = 0
    SENT = object()
    NR = len(RF)

    # ---- entry points that start from an arbitrary operation
    for nd in nodes:
        op = nd.op
        row = exp[nd.table.tidx]
        try:
            nt = nearest(op)
            calls += 1
            st.evaluations += 1
            if nt is not nd.table.op and not again(sig := "C29|utils.get_nearest_symbol_table|from-op|wrong-table"):
                st.violate(sig,
                           f"get_nearest_symbol_table({show(nd)}) returned {show(by_id.get(id(nt))) if nt is not None else None}",
                           wit("utils.get_nearest_symbol_table", nd, (), "-", nt, row[0], {"expected_table": show(nd.table)}))
        except Exception as ex:  # noqa: BLE001
            raised("utils.get_nearest_symbol_table", nd, (), "-", ex, row[0])
        for ri in range(NR):
            names, form, robj = RF[ri]
            e = row[ri]
            a0 = e.allowed[0]
            try:
                g1 = direct_from(op, robj)
            except Exception as ex:  # noqa: BLE001
                g1 = SENT
                raised("utils.SymbolTable.lookup_nearest_symbol_from", nd, names, form, ex, e)
            else:
                if g1 is not a0:
                    compare("utils.SymbolTable.lookup_nearest_symbol_from", nd, names, form, g1, e)
            try:
                g2 = cached_from(op, robj)
            except Exception as ex:  # noqa: BLE001
                g2 = SENT
                raised("utils.SymbolTableCollection.lookup_nearest_symbol_from", nd, names, form, ex, e)
            else:
                if g2 is not a0:
                    compare("utils.SymbolTableCollection.lookup_nearest_symbol_from", nd, names, form, g2, e)
            try:
                g3 = trait_from(op, robj)
            except Exception as ex:  # noqa: BLE001
                raised("traits.SymbolTable.lookup_symbol", nd, names, form, ex, e)
            else:
                if g3 is not a0:
                    compare("traits.SymbolTable.lookup_symbol", nd, names, form, g3, e)
            if verified and g1 is not g2 and g1 is not SENT and g2 is not SENT and not again(
                    sig := f"C29|cached-vs-direct|lookup_nearest_symbol_from|{'flat' if len(names) == 1 else 'nested'}-disagree"):
                st.violate(sig,
                           f"on a verified module SymbolTableCollection and SymbolTable disagree on {show_ref(names)} from {show(nd)}",
                           wit("cached-vs-direct lookup_nearest_symbol_from", nd, names, form, g2, e,
                               {"direct": show(by_id.get(id(g1))) if g1 is not None else None}))
        calls += 3 * NR
        st.evaluations += (4 if verified else 3) * NR

    # ---- entry points that take the symbol table operation explicitly
    direct_in = UST.lookup_symbol_in
    cached_in = coll.lookup_symbol_in
    for t in tables:
        op = t.op
        row = exp[t.tidx]
        try:
            cached_table = UST(op)
        except Exception as ex:  # noqa: BLE001
            cached_table = None
            raised("utils.SymbolTable.__init__", t, (), "-", ex, row[0])
        for ri, (names, form, robj) in enumerate(RF):
            e = row[ri]
            got = {}
            for api, fn in (("utils.SymbolTable.lookup_symbol_in", direct_in),
                            ("utils.SymbolTableCollection.lookup_symbol_in", cached_in)):
                try:
                    g = fn(op, robj)
                    calls += 1
                    st.evaluations += 1
                    compare(api, t, names, form, g, e)
                    got[api] = g
                except Exception as ex:  # noqa: BLE001
                    raised(api, t, names, form, ex, e)
                try:
                    gl = fn(op, robj, all_symbols=True)
                    calls += 1
                    st.evaluations += 1
                    ok = False
                    if gl is None:
                        ok = None in e.allowed
                    elif isinstance(gl, list):
                        for c in e.chains:
                            if len(c) == len(gl) and all(x.op is y for x, y in zip(c, gl)):
                                ok = True
                                break
                    if not ok and not again(
                            sig := f"C29|{api}[all_symbols]|{'flat' if len(names) == 1 else 'nested'}|chain-"
                            + _failure_kind(gl[-1] if isinstance(gl, list) and gl else None, e)):
                        st.violate(sig,
                                   f"{api}({show(t)}, {show_ref(names)}, all_symbols=True) does not return a designated chain",
                                   wit(api + "[all_symbols]", t, names, form, gl if isinstance(gl, list) else repr(gl), e,
                                       {"designated_chains": [[show(x) for x in c] for c in e.chains]}))
                    got[api + "*"] = gl
                except Exception as ex:  # noqa: BLE001
                    raised(api + "[all_symbols]", t, names, form, ex, e)
            if len(names) == 1 and form != "SymbolRefAttr" and cached_table is not None:
                try:
                    g = cached_table.lookup(robj)
                    calls += 1
                    st.evaluations += 1
                    compare("utils.SymbolTable.lookup", t, names, form, g, e)
                    got["lookup"] = g
                except Exception as ex:  # noqa: BLE001
                    raised("utils.SymbolTable.lookup", t, names, form, ex, e)
            if verified:
                d, c = "utils.SymbolTable.lookup_symbol_in", "utils.SymbolTableCollection.lookup_symbol_in"
                pairs = [(d, c), (d + "*", c + "*"), (d, "lookup")]
                for x, y in pairs:
                    if x in got and y in got:
                        st.evaluations += 1
                        gx, gy = got[x], got[y]
                        same = (gx is gy) if not isinstance(gx, list) or not isinstance(gy, list) else (
                            len(gx) == len(gy) and all(p is q for p, q in zip(gx, gy)))
                        if not same and not again(
                                sig := f"C29|cached-vs-direct|{y.rsplit('.', 1)[-1]}|{'flat' if len(names) == 1 else 'nested'}-disagree"):
                            st.violate(sig,
                                       f"on a verified module the cached and the direct lookup of {show_ref(names)} in {show(t)} disagree",
                                       wit("cached-vs-direct " + y, t, names, form, gy if not isinstance(gy, list) else gy, e,
                                           {"direct": [show(by_id.get(id(q))) for q in gx] if isinstance(gx, list)
                                            else (show(by_id.get(id(gx))) if gx is not None else None)}))

    # ---- bookkeeping
    st.executions += calls
    st.states += 1
    st.transitions += len(nodes)
    nontrivial = False
    for row in exp:
        for ri, (names, form, _o) in enumerate(RF):
            if form != "SymbolRefAttr":
                continue
            e = row[ri]
            cls = e.cls
            if cls == "ambiguous":
                cls = "ambiguous(" + "|".join(sorted({"found"} if e.chains else set()) + e.reasons) + ")"
            st.outcomes[f"depth{len(names)}:{cls}"] += 1
            if len(names) > 1 and (e.chains or "private-reached" in e.reasons):
                nontrivial = True
    if nontrivial:
        st.nontrivial += 1
    st.max_depth = max(st.max_depth, max(len(t.path) for t in tables) + 1)


# ------------------------------------------------------------------ enumeration / sharding
def _configs(tier):
    return QUICK if tier == "quick" else THOROUGH


def _shard(task) -> Stats:
    tier, ci, lo, hi, seed = task
    cfgs = _configs(tier)
    cfg = cfgs[ci]
    levels = cfg["levels"]
    st = Stats()
    ch = choices((tier, ci), levels, 0)
    earlier = [c for c in cfgs[:ci] if c.get("spell_b", "b") == cfg.get("spell_b", "b")]
    _set_spelling(cfg.get("spell_b", "b"))
    count = 0

    def one(root_name, body):
        nonlocal count
        for c in earlier:
            if in_cfg(root_name, body, c):
                st.bump("skipped_already_in_earlier_config")
                return
        check_tree(st, root_name, body, cfg["name"])
        count += 1
        if count == 1 + (max(lo, 0) * 7 + seed * 13) % 23:  # at most one sample per shard; the seed only rotates which
            st.sample({"cfg": cfg["name"], "root_name": root_name, "body": json.loads(json.dumps(body))})

    for rn in cfg["roots"]:
        if lo < 0:
            one(rn, [])
            continue
        for i in range(lo, hi):
            one(rn, [ch[i]])
            if levels[0]["K"] >= 2:
                for c2 in ch:
                    one(rn, [ch[i], c2])
    return st


def _tasks(tier, seed):
    tasks = []
    sizes = {}
    for ci, cfg in enumerate(_configs(tier)):
        n = len(choices((tier, ci), cfg["levels"], 0))
        k2 = cfg["levels"][0]["K"] >= 2
        sizes[cfg["name"]] = len(cfg["roots"]) * (1 + n + (n * n if k2 else 0))
        tasks.append((tier, ci, -1, 0, seed))
        step = 1 if k2 else max(1, n // 400)
        for lo in range(0, n, step):
            tasks.append((tier, ci, lo, min(n, lo + step), seed))
    return tasks, sizes


def run(ctx):
    tier = "quick" if ctx.quick else "thorough"
    tasks, sizes = _tasks(tier, ctx.seed)
    results = {}
    for t, st in pmap(_shard, tasks):
        results[t] = st
    pool = []
    for t in tasks:  # merge in task order: the kept witness of a signature does not depend on scheduling
        pool.extend(results[t].samples)
        results[t].samples = []
        ctx.merge(results[t])
    if pool:  # six samples spread over the whole enumeration (the seed only rotates which)
        step = max(1, len(pool) // 6)
        ctx.stats.samples = [pool[(ctx.seed * 5 + 3 + k * step) % len(pool)] for k in range(min(6, len(pool)))]
    ctx.bounds = {
        "configs": [{"name": c["name"], "root_names": list(c["roots"]), "levels": c["levels"], "trees_incl_overlap": sizes[c["name"]]}
                    for c in _configs(tier)],
        "symbol_names": list(NAMES), "reference_names": list(REF_NAMES), "reference_depth": [1, 2, 3],
        "reference_forms": ["SymbolRefAttr", "str (flat)", "StringAttr (flat)"],
        "kinds": {"D": "func.func declaration", "F": "func.func {func.return}", "G": "func.func {test.op({test.termop}); func.return}",
                  "M": "builtin.module named (symbol+table) or unnamed (table only)"},
    }
    ctx.rule = ("every module tree of every listed config (per level: <=K ordered children, function kinds, visibilities, named and "
                "unnamed nested modules; duplicate names included), each once (trees of an earlier config are skipped); on each tree "
                "all 45 references are looked up from every operation / in every table with every entry point and compared by identity "
                "with the reference resolver; states = trees, transitions = operations placed, executions = real lookup calls; "
                "non-trivial = a tree in which some nested reference resolves to an operation or is refused because it reaches a "
                "private symbol")
    ctx.assumptions = [
        "reference resolver ref_chains in props/c29.py states the rules of the property (root among direct children of the nearest "
        "table incl. the op itself; each nested step needs a table and refuses private)",
        "with duplicate names in one table every same-named child is an acceptable answer (module does not verify)",
        "a module's visibility is its `sym_visibility` discardable attribute, as read by SymbolTable.get_symbol_visibility",
        "cached-vs-direct agreement is asserted only when ModuleOp.verify() accepts the tree",
    ]


def replay(rep) -> bool:
    root_name, body = rep["witness"]["tree"]
    st = Stats()
    _set_spelling("" if str(rep["witness"].get("cfg", "")).endswith("empty-name") else "b")
    check_tree(st, root_name, body, rep["witness"].get("cfg", "?"))
    return rep["signature"] not in st.violations
