#!/usr/bin/env python3
"""tools/add_known.py <Cnn> <signature> <what / why not fixed>   (manual tool; checks never write this file)"""
import hashlib, json, sys
pid, sig, what = sys.argv[1:4]
p = '/verif/known_findings.json'
d = json.load(open(p))
h = hashlib.sha1(sig.encode()).hexdigest()[:12]
wit = None
try:
    wit = json.load(open(f'/verif/replays/{pid}/{h}.json'))['witness']
except FileNotFoundError:
    pass
d['known'] = [e for e in d['known'] if not (e['property'] == pid and e['signature'] == sig)]
d['known'].append({"property": pid, "signature": sig, "what": what, "witness": wit})
json.dump(d, open(p, 'w'), indent=1, default=str)
print('added', sig, 'witness' if wit else 'NO WITNESS')
