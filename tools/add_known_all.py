#!/usr/bin/env python3
"""tools/add_known_all.py <Cnn> "<note appended to every entry>"  — registers every replay currently in replays/<Cnn>/
(manual tool, run after triage; checks never write known_findings.json)"""
import glob, json, sys
pid, note = sys.argv[1], sys.argv[2]
p = '/verif/known_findings.json'
d = json.load(open(p))
have = {(e['property'], e['signature']) for e in d['known']}
n = 0
for f in sorted(glob.glob(f'/verif/replays/{pid}/*.json')):
    r = json.load(open(f))
    if (pid, r['signature']) in have:
        continue
    d['known'].append({"property": pid, "signature": r['signature'], "what": f"{r['what']} — {note}", "witness": r['witness']})
    n += 1
json.dump(d, open(p, 'w'), indent=1, default=str)
print('added', n)
