#!/bin/bash
# Run the pinned baseline suite on a tree (default /repo) in parallel; the two tests listed as
# always_fail in /root/.vp/BASELINE.json are deselected.  Exit 0 iff everything else passes.
T=${1:-/repo}
cd "$T" && /venv/bin/python -m pytest -q -p no:cacheprovider --timeout=900 --continue-on-collection-errors -n 12 \
  --deselect tests/dialects/test_universe.py::test_multiverse \
  --deselect tests/xdsl_tblgen/test_tblgen.py::test_run_tblgen_to_py 2>&1 | tail -8
exit ${PIPESTATUS[0]}
