#!/venv/bin/python
"""tools/collect_seeds.py Cnn [extra check ids for the matrix...]
Copies /tmp/wt-Cnn/_mutants/k/{patch.diff,demo.py,notes.md} to /verif/seeded/Cnn-mk/, removes the worktree, then for
each: confirms it (tools/confirm_seed.sh: suite passes with the patch, demo fails with / passes without) and runs the quick
tier of Cnn (+ extra checks) against it (tools/try_patch.py, private copy).  Writes meta.json."""
import glob, json, os, re, shutil, subprocess, sys
pid = sys.argv[1]; extra = sys.argv[2:]
wt = f'/tmp/wt-{pid}'
ids = []
for d in sorted(glob.glob(f'{wt}/_mutants/[0-9]*')):
    if not os.path.exists(d + '/patch.diff') or not os.path.exists(d + '/demo.py'):
        continue
    sid = f'{pid}-m{os.path.basename(d)}'
    os.makedirs(f'/verif/seeded/{sid}', exist_ok=True)
    for f in ('patch.diff', 'demo.py', 'notes.md'):
        if os.path.exists(f'{d}/{f}'):
            shutil.copy(f'{d}/{f}', f'/verif/seeded/{sid}/{f}')
    ids.append(sid)
if os.path.isdir(wt):
    subprocess.run(['git', '-C', '/repo', 'worktree', 'remove', '--force', wt])
for sid in ids:
    d = f'/verif/seeded/{sid}'
    c = subprocess.run(['/verif/tools/confirm_seed.sh', d], capture_output=True, text=True).stdout.strip().splitlines()
    line = c[-1] if c else ''
    m = re.search(r"demo_with_patch_exit=(\d+) demo_without_patch_exit=(\d+) suite='(.*)'", line)
    det = []
    for chk in [pid] + extra:
        r = subprocess.run(['/verif/tools/try_patch.py', d + '/patch.diff', chk, '--tier', 'quick'], capture_output=True, text=True).stdout
        ex = re.findall(r'exit (\d+)', r)
        sigs = ';'.join(re.findall(r'signature: (.*)', r))
        det.append(f'{sid} vs {chk}: exit {ex[-1] if ex else "?"} :: {sigs[:400]}')
    notes = open(d + '/notes.md').read() if os.path.exists(d + '/notes.md') else ''
    files = sorted(set(re.findall(r'^\+\+\+ b/(\S+)', open(d + '/patch.diff').read(), re.M)))
    need = re.search(r'(?is)(needs?[^\n]*\n.*?)(?:\n\n|\Z)', notes)
    meta = {"id": sid, "breaks_property": pid, "files_changed": files,
            "needs_to_manifest": (need.group(1)[:600] if need else notes[:400]),
            "produced_by": f"independent sub-agent given only the property text and a scratch worktree ({wt}); nothing from /verif",
            "confirmed": {"how": "tools/confirm_seed.sh in a throw-away worktree of /repo: git apply patch; demo.py; pinned suite; git checkout; demo.py",
                          "demo_exit_with_patch": int(m.group(1)) if m else None, "demo_exit_without_patch": int(m.group(2)) if m else None,
                          "suite_with_patch": m.group(3) if m else line},
            "detection_runs": det}
    json.dump(meta, open(d + '/meta.json', 'w'), indent=1)
    print(sid, '| confirm:', (m.groups() if m else line), '|', ' || '.join(det)[:300])
