#!/bin/bash
# tools/confirm_seed.sh <dir with patch.diff + demo.py>
# Confirms, in a throw-away worktree of /repo: patch applies, pinned suite passes with it, demo fails with it and passes without.
D=$(realpath "$1"); W=$(mktemp -d /tmp/confirm-XXXXXX); rmdir "$W"
git -C /repo worktree add -q --detach "$W" HEAD || exit 3
cd "$W" || exit 3
export PYTHONPATH="$W"
if ! git apply "$D/patch.diff"; then echo "PATCH-DOES-NOT-APPLY"; cd /; git -C /repo worktree remove --force "$W"; exit 3; fi
/venv/bin/python "$D/demo.py" >/dev/null 2>&1; WITH=$?
SUITE=$(/venv/bin/python -m pytest -q -p no:cacheprovider --timeout=900 -n ${CONFIRM_NPROC:-8} --deselect tests/dialects/test_universe.py::test_multiverse --deselect tests/xdsl_tblgen/test_tblgen.py::test_run_tblgen_to_py 2>&1 | tail -1)
git checkout -q -- . 
/venv/bin/python "$D/demo.py" >/dev/null 2>&1; WITHOUT=$?
cd /; git -C /repo worktree remove --force "$W"
echo "demo_with_patch_exit=$WITH demo_without_patch_exit=$WITHOUT suite='$SUITE'"
