#!/usr/bin/env python3
"""tools/design_tables.py — refresh the generated tables of DESIGN.md (between <!-- BEGIN x --> / <!-- END x --> markers):
  status       one row per property from runs/<id>.<tier>.json (what the last run of each tier covered)
  seed-matrix  seeded change x check from seeded/*/detect.log (tools/seed_table.py)
  known        number of registered known findings / repaired defects per property from known_findings.json"""
import collections
import json
import os
import re
import subprocess

ROOT = '/verif'


def status() -> str:
    out = ["| id | quick: states / transitions / executions | wall | thorough: states / transitions / executions | wall | known | caps |",
           "|---|---|---|---|---|---|---|"]
    for i in range(1, 30):
        pid = f"C{i:02d}"
        cells = []
        caps = []
        known = 0
        for tier in ("quick", "thorough"):
            p = f"{ROOT}/runs/{pid}.{tier}.json"
            if os.path.exists(p):
                r = json.load(open(p))
                cells += [f"{r['states']:,} / {r['transitions']:,} / {r['executions']:,}", f"{r['wall_s']:.0f} s"]
                caps += [f"{tier}: {c}" for c in r.get("caps_hit", [])]
                known = max(known, r.get("known_findings_seen", 0))
            else:
                cells += ["–", "–"]
        out.append(f"| {pid} | {cells[0]} | {cells[1]} | {cells[2]} | {cells[3]} | {known} | {'; '.join(caps) or 'none'} |")
    return "\n".join(out)


def seed_matrix() -> str:
    return subprocess.run(['python3', f'{ROOT}/tools/seed_table.py'], capture_output=True, text=True).stdout.strip()


def known() -> str:
    k = json.load(open(f'{ROOT}/known_findings.json'))
    c = collections.Counter(e['property'] for e in k['known'])
    fx = collections.Counter(re.search(r'property=(C\d+)', l).group(1) for l in k['fixed'])
    out = ["| id | known findings registered | defects repaired (`fixed:` lines) |", "|---|---|---|"]
    for i in range(1, 30):
        pid = f"C{i:02d}"
        out.append(f"| {pid} | {c.get(pid, 0)} | {fx.get(pid, 0)} |")
    out.append(f"| total | {sum(c.values())} | {sum(fx.values())} |")
    return "\n".join(out)


s = open(f'{ROOT}/DESIGN.md').read()
for name, fn in (("status", status), ("seed-matrix", seed_matrix), ("known", known)):
    b, e = f"<!-- BEGIN {name} -->", f"<!-- END {name} -->"
    if b in s and e in s:
        s = s[:s.index(b) + len(b)] + "\n" + fn() + "\n" + s[s.index(e):]
open(f'{ROOT}/DESIGN.md', 'w').write(s)
print("DESIGN.md tables refreshed")
