#!/venv/bin/python
"""Writes /verif/mc/corpus_verified.json: the (file, chunk index, sha1 of the chunk text) of every corpus chunk that
parses AND verifies on the tree this was generated from.  Checks use it to notice that an input the repository's own
tests treat as valid is no longer accepted (a chunk whose text hash changed is simply not in the manifest)."""
import hashlib, json, sys
sys.path.insert(0, '/verif')
from mc import corpus
out = []
for rel, i, text in corpus.chunks():
    if corpus.parse(text, rel) is not None:
        out.append([rel, i, hashlib.sha1(text.encode()).hexdigest()[:16]])
json.dump(out, open('/verif/mc/corpus_verified.json', 'w'))
print(len(out))
