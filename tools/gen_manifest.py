#!/usr/bin/env python3
"""Regenerates /verif/MANIFEST.json from the table below + the modules present in props/.
A property without a module is listed under not_applicable ("check not built yet") so that the
manifest is valid at every commit."""
import json
import os

ROOT = os.path.dirname(os.path.dirname(os.path.abspath(__file__)))

# id -> (technique, level text, level note, design ref)
T = {
 "C01": ("explicit-state BFS over call histories on real IR objects; independent pointer-walking invariant",
         "All histories of public IR-mutation calls up to the depth bound from several seed forests are executed on the real objects; a structural invariant walker checks container lists, parent pointers, use lists and indices after every successful call.",
         "irinv walker and label bookkeeping in mc/; deepcopy of IR is faithful", "§6 C01"),
 "C02": ("bounded-exhaustive enumeration of IR forests x clone entry points, then BFS of follow-up edits",
         "Every generated forest up to the size bound is cloned through every entry point; mapping, equivalence (independent canonical form), untouched source/destination and independence under all follow-up edit histories of bounded depth are checked.",
         "mc/canon.py canonical form; mc/irgen.py enumerator", "§6 C02"),
 "C03": ("bounded-exhaustive enumeration of IR pairs (clones, all single-point mutations, cross pairs)",
         "is_structurally_equivalent is compared with equality of an independent canonical form on every pair of the bounded space, in both argument orders.",
         "mc/canon.py decides isomorphism (forced correspondence)", "§6 C03"),
 "C04": ("bounded-exhaustive enumeration of modules x name-hint assignments + complete corpus enumeration",
         "Every verified module of the bounded generator and every verified chunk of the .mlir corpus is printed generically, parsed in a fresh context, compared by canonical form and re-printed.",
         "canon normalisation of default properties follows the property text", "§6 C04"),
 "C05": ("complete corpus enumeration + deviation-1 neighbourhood of op instances + generator tree of synthetic declarative-format definitions x all instances",
         "Every verified corpus chunk (plus a hand-written supplement) and every instance of every generated declarative-format definition (optional groups, nesting, else-branches, variadics, default-valued properties) is printed in custom and generic form; both must parse back to IR with the canonical form of the original.",
         "registered-op coverage bounded by the ops the corpus instantiates (reported); format-engine coverage by the grammar in props/c05_formats.py", "§6 C05"),
 "C06": ("generator-tree enumeration of builtin attribute values with boundary payloads (all f16/bf16 bit patterns)",
         "Every generated attribute/type is printed, parsed in a fresh context and compared by equality and by independently extracted payload bits.",
         "bit extraction via struct in the harness", "§6 C06"),
 "C07": ("bounded-exhaustive token strings, single-token edit neighbourhood of the corpus, pump families; hard-kill timeouts",
         "Every input of the bounded spaces is parsed in a worker with a CPU-time budget; any outcome other than IR / ParseError / VerifyException, or a budget overrun, is a violation.",
         "budget 2 s + 5 ms per character of user-CPU time, measured twice, suspects re-run alone; kill-on-stall watchdog", "§6 C07"),
 "C08": ("exhaustive pairs (and triples on a sub-pool) over a generated attribute pool",
         "Reflexivity, symmetry, transitivity, hash consistency, twin-construction equality and payload-distinguishing inequality are checked on every ordered pair of the pool.",
         "independent payload bits extraction", "§6 C08"),
 "C09": ("generator tree of constraint ASTs x attribute universe against a reference evaluator",
         "Every constraint tree up to the depth bound is built through the public constructors and compared with a reference acceptance function on every attribute of the universe.",
         "reference evaluator in props/c09.py", "§6 C09"),
 "C10": ("enumeration of generated IRDL op definitions x all instance shapes against a reference segmenter",
         "Every definition in the bounded family is instantiated with every list length / size vector; verify() is compared with the reference segmenter; constructor and accessors are compared with the reference segments.",
         "reference segmenter in props/c10.py", "§6 C10"),
 "C11": ("stateless exploration of the rewrite driver under a worklist chooser with iterated deviation bound",
         "For every seed module, pattern set and walk configuration, every worklist pop order with at most k deviations is executed on fresh clones; fixpoint, change flag, invocation targets and listener events are checked on every execution.",
         "Worklist.pop substituted from the harness; ground truth from wrapped mutators", "§6 C11"),
 "C12": ("explicit-state BFS over call histories against reference models",
         "All call histories up to the depth bound over a small universe are executed on the real Worklist / IntDisjointSet / DisjointSet / ScopedDict, with every return value and global observation compared with a list / partition / list-of-dicts model.",
         "reference models in props/c12.py", "§6 C12"),
 "C13": ("bounded-exhaustive program enumeration against an independent liveness/reachability reference",
         "Every generated program (effect classes from a harness-side ground-truth table) is run through every DCE entry point; removed ops must be reference-dead, survivors of the pass reference-live, order of effects preserved.",
         "ground-truth effect table in the harness alphabet", "§6 C13"),
 "C14": ("bounded-exhaustive program enumeration x boundary inputs against a reference interpreter",
         "Every generated arith/cf/scf program is run through each pass; results before/after are compared bit-exactly under an independent reference semantics on all boundary inputs (exhaustive for narrow widths).",
         "mc/refsem.py written from the MLIR LangRef", "§6 C14"),
 "C15": ("exhaustive operand enumeration for i1..i4, boundary cubes for wider types, against a reference semantics",
         "Every registered interpreter implementation for arith is executed on all operand tuples of narrow widths and boundary values of wide ones and compared bit-exactly with the reference.",
         "mc/refsem.py", "§6 C15"),
 "C16": ("bounded-exhaustive loop-program enumeration x input box against a reference interpreter with effect log",
         "Every generated loop program is transformed by each pass; results and ordered effect logs before/after are compared on every argument vector of the box.",
         "mc/refsem.py", "§6 C16"),
 "C17": ("complete enumeration of registered passes x corpus chunks with hard timeouts",
         "Every (pass, verified chunk) pair of the tier's finite list is executed; a pass that returns must leave IR that verifies, satisfies the structural invariant, and round-trips through the generic printer.",
         "pass exceptions/timeouts are reported failures per the property", "§6 C17"),
 "C18": ("enumeration of pass classes x field value alphabets, multi-entry pipelines, spec-reuse histories; bounded-exhaustive pipeline token strings",
         "Every accepted option assignment from the per-type alphabets is printed and re-parsed, alone and inside 2-3 entry pipelines; every parsed spec is instantiated twice and must stay unchanged; every token string up to the bound is parsed and its outcome class checked.",
         "floats compared by bits", "§6 C18"),
 "C19": ("bounded-exhaustive program enumeration (straight-line, loops, depth-2 loop nests, pre-allocated registers read only in nested bodies) x register pools; independent liveness + register-semantics execution",
         "Every generated function is allocated under every register pool of the bound; interference is checked at every program point (including loop back-edges) and the allocated code is executed with register semantics against the pre-allocation execution.",
         "register machine, liveness and loop execution (>= 2 iterations per loop) are written in props/c19.py, independent of the allocator", "§6 C19 / §9"),
 "C20": ("fully exhaustive enumeration of move graphs x free-register sets on a symbolic register machine",
         "Every parallel move over up to N registers per class is lowered by the real pattern and the emitted sequence executed symbolically (xor = symmetric difference).",
         "symbolic register machine in props/c20.py", "§6 C20"),
 "C21": ("bounded-exhaustive program enumeration; native execution under an ABI-checking trampoline",
         "Every generated function is compiled with the documented pipeline, assembled with the system assembler and executed on the boundary argument set; results and callee-saved registers are compared.",
         "system gcc/as; mc/refsem.py", "§6 C21"),
 "C22": ("bounded-exhaustive program enumeration executed on an independent RV32 model of the emitted assembly text",
         "Every generated program is lowered with the in-repo pipeline and its assembly executed on the model for all boundary inputs; canonicalization is checked on every single op / dependent pair at boundary constants.",
         "mc/rvmodel.py: RV32IMFD value-semantics model of the emitted assembly text, written from the ISA manual", "§6 C22"),
 "C23": ("bounded-exhaustive llvm-dialect program enumeration; llvmlite verification and MCJIT execution",
         "Every generated llvm function is translated, verified by LLVM, JIT-compiled and executed on boundary inputs against a reference LLVM semantics.",
         "llvmlite MCJIT; reference semantics in the harness", "§6 C23"),
 "C24": ("fully exhaustive enumeration of CFGs with ordered 0-2 successor terminators",
         "Every CFG with up to n blocks is built from real Blocks; dominates / strictly_dominates / PostOrderIterator are compared with path-definition references.",
         "reference reachability in props/c24.py", "§6 C24"),
 "C25": ("stateless exploration of the dataflow solver under a worklist chooser with iterated deviation bound",
         "For every generated block (ops with 0-3 results, pure / read-only / effectful) every worklist order with at most k deviations is executed; the final liveness must equal the reference and be identical across schedules.",
         "solver worklist substituted from the harness", "§6 C25"),
 "C26": ("generator-tree enumeration of affine expressions evaluated on the full box",
         "Every expression tree up to the depth bound built with the operator overloads is evaluated on all points of the box against a reference evaluator, also after simplify / compose / replace / print-parse.",
         "reference evaluator in props/c26.py", "§6 C26"),
 "C27": ("generator-tree enumeration of PDL patterns x payload modules, differential between the two execution paths",
         "Every generated pattern is applied to every payload directly and via pdl_interp conversion; canonical forms of the results must agree.",
         "mc/canon.py", "§6 C27"),
 "C28": ("bounded-exhaustive pure arith programs (incl. property twins, two-function modules) x rule sets x pattern orders x cost models, reference interpreter on boundary inputs",
         "Every generated module is run through the eqsat pipelines under every cost model of the bound; each extracted function must verify, be acyclic and agree with its own source under the reference semantics.",
         "mc/refsem.py", "§6 C28"),
 "C29": ("fully exhaustive enumeration of nested symbol-table trees x references x lookup origins",
         "Every module tree up to the bound is built and every reference is looked up from every operation with all lookup entry points against a reference resolver.",
         "reference resolver in props/c29.py", "§6 C29"),
}


def main():
    # only modules explicitly marked ready are claimed (others may be work in progress)
    have = json.load(open(os.path.join(ROOT, "tools", "ready.json")))
    disabled = {}
    dpath = os.path.join(ROOT, "tools", "disabled.json")
    if os.path.exists(dpath):
        disabled = json.load(open(dpath))
    checks, na = [], []
    for pid in sorted(T):
        tech, text, note, ref = T[pid]
        if pid in have and pid not in disabled:
            checks.append({
                "property_id": pid,
                "quick_cmd": f"./check {pid} --tier quick",
                "thorough_cmd": f"./check {pid} --tier thorough",
                "evidence_file": f"/verif/evidence/{pid}.json",
                "replay_cmd_template": f"./check {pid} --replay {{path}}",
                "engine": "mc",
                "level_claimed": {"category": "model_checking", "text": text, "design_ref": ref},
                "level_note": note,
                "technique": tech,
            })
        else:
            na.append({"property_id": pid, "reason": disabled.get(pid, "check not built yet in this session (design in DESIGN.md §6); not claimed")})
    m = {
        "version": 1,
        "setup_cmd": "true",
        "hooks": {
            "guard": "XDSL_VERIF",
            "enable": "no source hooks: interposition is done by monkeypatching from the harness process; ./check sets XDSL_VERIF=1 for completeness",
            "baseline_off_cmd": "cd /repo && /venv/bin/python -m pytest -ra -q -p no:cacheprovider --timeout=900 --continue-on-collection-errors",
            "source_commits": [],
            "add_only": True,
        },
        "engines": [{
            "name": "mc", "path": "/verif/mc",
            "serves_properties": [c["property_id"] for c in checks],
            "kind_free_text": "hand-written explicit-state / stateless bounded-exhaustive explorer for Python (BFS over call histories, DFS over choice prefixes with deviation bound, generator-tree enumeration), 16-way process pool with hard timeouts",
        }],
        "checks": checks,
        "not_applicable": na,
        "notes": ("Commands are run from /verif. Every check imports /repo's working tree directly (sys.path entry in front of the editable install); "
                  "nothing to rebuild. Exit 0 = held on everything explored (KNOWN-FINDING lines for entries of known_findings.json), exit 1 = "
                  "VIOLATION lines with replay files under replays/<id>/, exit 2 = harness error. Every run writes evidence/<id>.json and the "
                  "per-tier ledger runs/<id>.<tier>.json. VERIF_NPROC limits workers (default 16); VERIF_SEED only rotates which witnesses are kept "
                  "as samples. On an idle 16-core machine the quick tier of all 29 checks takes about 10 minutes in total (largest: C11 ~90 s, C13 ~50 s), "
                  "the thorough tier about 2.3 hours in total (largest: C11 ~14 min, C24 ~13 min, C02 ~10 min, C13, C25, C01 ~9 min each). "
                  "Repaired defects are `fix:` commits in /repo listed under `fixed` in known_findings.json; " + str(len([d for d in os.listdir(os.path.join(ROOT, "seeded")) if d[0] == "C"])) + " confirmed seeded property-breaking "
                  "changes with their detection logs are under seeded/ (DESIGN.md section 9.4)."),
    }
    with open(os.path.join(ROOT, "MANIFEST.json"), "w") as f:
        json.dump(m, f, indent=1)
    print(f"checks={len(checks)} not_applicable={len(na)}")


if __name__ == "__main__":
    main()
