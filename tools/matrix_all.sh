#!/bin/bash
# tools/matrix_all.sh [seed ids...] — re-run the quick tier of each seeded change's own check (plus the cross-checks below)
# against a private copy with the change applied; detect.log of each seed is rewritten.  Two lanes of 8 workers.
cd /verif
declare -A EXTRA=( [C04-m2]="C06" [C17-m2]="C13" [C17-m3]="C13" [C05-m5]="C04" [C08-m6]="C03" [C11-m6]="C12" [C22-m4]="C20" )
SEEDS=${@:-$(ls seeded | grep -E '^C[0-9]+-m[0-9]+$')}
lane() {
  for s in "$@"; do
    : > seeded/$s/detect.log
    VERIF_NPROC=8 tools/seed_matrix.sh $s ${s%%-*} ${EXTRA[$s]} >/dev/null 2>&1
  done
}
A=(); B=(); i=0
for s in $SEEDS; do if (( i % 2 == 0 )); then A+=($s); else B+=($s); fi; i=$((i+1)); done
lane "${A[@]}" & lane "${B[@]}" & wait
python3 tools/seed_table.py | tail -3
