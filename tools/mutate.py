#!/venv/bin/python
"""tools/mutate.py <file-relative-to-/repo> <old> <new> -- <check args...>

Try a textual mutation WITHOUT touching /repo: copies /repo/xdsl into a private temp dir, applies the
replacement there (first occurrence), runs ./check with VERIF_REPO pointing at the copy, removes the copy.
(sys.path entries take precedence over the editable-install finder, so the copy is what gets imported.)"""
import os, shutil, subprocess, sys, tempfile
i = sys.argv.index('--')
f, old, new = sys.argv[1:4]
tmp = tempfile.mkdtemp(prefix='verif-mut-')
try:
    shutil.copytree('/repo/xdsl', os.path.join(tmp, 'xdsl'), ignore=shutil.ignore_patterns('__pycache__'))
    p = os.path.join(tmp, f)
    s = open(p).read()
    if s.count(old) < 1:
        print('pattern not found'); sys.exit(3)
    open(p, 'w').write(s.replace(old, new, 1))
    env = dict(os.environ, VERIF_REPO=tmp)
    r = subprocess.run(['/verif/check'] + sys.argv[i+1:], capture_output=True, text=True, env=env)
    for l in r.stdout.strip().splitlines():
        if l.startswith(('VIOLATION', 'KNOWN', '  what', '  signature', '[')):
            print(l)
    print('exit', r.returncode, r.stderr[-1500:] if r.returncode == 2 else '')
finally:
    shutil.rmtree(tmp, ignore_errors=True)
