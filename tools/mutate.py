#!/venv/bin/python
"""tools/mutate.py <file-relative-to-/repo> <old> <new> -- <check args...>
Apply a textual mutation to /repo, run ./check, ALWAYS revert (git checkout)."""
import subprocess, sys
i = sys.argv.index('--')
f, old, new = sys.argv[1:4]
p = '/repo/' + f
s = open(p).read()
assert s.count(old) >= 1, 'pattern not found'
open(p, 'w').write(s.replace(old, new, 1))
try:
    r = subprocess.run(['/verif/check'] + sys.argv[i+1:], capture_output=True, text=True)
    out = r.stdout.strip().splitlines()
    for l in out:
        if l.startswith('VIOLATION') or l.startswith('  what') or l.startswith('['):
            print(l)
    print('exit', r.returncode, r.stderr[-500:] if r.returncode == 2 else '')
finally:
    subprocess.run(['git', '-C', '/repo', 'checkout', '--', f])
