#!/bin/bash
# tools/seed_matrix.sh <seed-dir-name> [check ids...]  — runs the quick tier of the given checks (default: the seed's own property)
# against the seeded change (private copy, never /repo) and appends the outcome to seeded/<id>/detect.log
S=$1; shift
P=${S%%-*}
CHECKS=${@:-$P}
for c in $CHECKS; do
  out=$(/verif/tools/try_patch.py /verif/seeded/$S/patch.diff $c --tier quick 2>&1 | tail -8)
  ex=$(echo "$out" | grep -o "exit [0-9]*" | tail -1)
  sigs=$(echo "$out" | grep "signature:" | sed 's/ *signature: //' | tr '\n' ';')
  echo "$(date +%H:%M) $S vs $c: $ex :: $sigs" | tee -a /verif/seeded/$S/detect.log
done
