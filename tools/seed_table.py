#!/usr/bin/env python3
"""tools/seed_table.py — regenerate seeded/<id>/meta.json `detection` from detect.log (last run per check wins) and print the
markdown detection matrix used in DESIGN.md (seeded change x check that reports it)."""
import glob
import json
import os
import re

rows = []
for d in sorted(glob.glob('/verif/seeded/C*-m*')):
    sid = os.path.basename(d)
    last: dict[str, tuple[str, str]] = {}
    meta_p = f'{d}/meta.json'
    meta = json.load(open(meta_p)) if os.path.exists(meta_p) else {"id": sid}
    lines = ["- " + x for x in meta.get("detection_runs", [])]
    try:
        lines += list(open(f'{d}/detect.log'))
    except FileNotFoundError:
        pass
    for ln in lines:
        m = re.match(r'\S+ (\S+) vs (\S+): exit (\d*) :: (.*)', ln.strip())
        if m:
            last[m.group(2)] = (m.group(3), m.group(4))
    meta["detection"] = {c: {"exit": e, "signatures": [s for s in sigs.split(';') if s][:6]} for c, (e, sigs) in sorted(last.items())}
    json.dump(meta, open(meta_p, 'w'), indent=1)
    files = ", ".join(os.path.relpath(f, 'xdsl') if f.startswith('xdsl/') else f for f in meta.get("files_changed", []))
    caught = [c for c, (e, _) in sorted(last.items()) if e == '1']
    ex = ""
    for c in caught:
        sigs = [s for s in last[c][1].split(';') if s]
        if sigs:
            ex = sigs[0]
            break
    rows.append((sid, files, ", ".join(caught) if caught else "**missed**", ex))

print("| seeded change | file(s) changed | reported by (quick tier) | example signature |")
print("|---|---|---|---|")
for sid, files, caught, ex in rows:
    print(f"| {sid} | {files} | {caught} | `{ex[:90]}` |")
n = len(rows)
m = sum(1 for r in rows if r[2] == "**missed**")
print(f"\n{n} confirmed seeded changes, {n - m} reported by at least one check, {m} missed.")
