#!/bin/bash
# tools/sweep.sh <tier> [ids...]  — run the given tier of every claimed check (or the listed ones), one after the other;
# prints one summary line per check and the new-violation signatures.
T=${1:-quick}; shift
IDS=${@:-$(python3 -c "import json;print(' '.join(json.load(open('/verif/tools/ready.json'))))")}
for c in $IDS; do
  s=$(date +%s)
  out=$(/verif/check $c --tier $T 2>&1)
  rc=$?
  echo "$(date +%H:%M) $c rc=$rc $(echo "$out" | grep '^\[' | tail -1)"
  echo "$out" | grep "signature:" | sed 's/^/      /'
  if [ $rc -eq 2 ]; then echo "$out" | tail -5 | sed 's/^/      ! /'; fi
done
