#!/venv/bin/python
"""tools/try_patch.py <patch.diff> <check args...>   e.g. tools/try_patch.py seeded/x/patch.diff C01 --tier quick
Applies the patch to a PRIVATE COPY of /repo/xdsl (never to /repo) and runs ./check against it via VERIF_REPO."""
import os, shutil, subprocess, sys, tempfile
patch = os.path.abspath(sys.argv[1])
tmp = tempfile.mkdtemp(prefix='verif-seed-')
try:
    shutil.copytree('/repo/xdsl', os.path.join(tmp, 'xdsl'), ignore=shutil.ignore_patterns('__pycache__'))
    r = subprocess.run(['patch', '-p1', '-s', '-i', patch], cwd=tmp, capture_output=True, text=True)
    if r.returncode != 0:
        print('PATCH FAILED', r.stdout[-500:], r.stderr[-500:]); sys.exit(3)
    env = dict(os.environ, VERIF_REPO=tmp)
    r = subprocess.run(['/verif/check'] + sys.argv[2:], capture_output=True, text=True, env=env)
    for l in r.stdout.strip().splitlines():
        if l.startswith(('VIOLATION', '  what', '  signature', '[')):
            print(l[:300])
    print('exit', r.returncode, r.stderr[-1200:] if r.returncode == 2 else '')
finally:
    shutil.rmtree(tmp, ignore_errors=True)
