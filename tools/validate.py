#!/opt/veriftools/pyvenv/bin/python
"""Validate MANIFEST.json and every evidence file against the schemas (run with python3-vt)."""
import json, sys, glob, jsonschema
ok = True
m = json.load(open('/verif/MANIFEST.json'))
jsonschema.validate(m, json.load(open('/root/.vp/MANIFEST.schema.json')))
es = json.load(open('/root/.vp/EVIDENCE.schema.json'))
for c in m['checks']:
    try:
        jsonschema.validate(json.load(open(c['evidence_file'])), es)
    except Exception as e:
        ok = False; print('BAD', c['evidence_file'], str(e)[:300])
print('manifest ok; evidence', 'ok' if ok else 'BAD')
sys.exit(0 if ok else 1)
